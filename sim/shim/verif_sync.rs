//! Drop-in replacement for `std::sync` used by the simulator's instrumenting build.
//!
//! `/verif/tools/instrument.py` copies the repository's sources, rewrites every `std::sync` path
//! in them to `…::verif::sync` and injects this file as that module. Everything is re-exported from
//! `std::sync` unchanged except the types whose operations can block or race — `Mutex`, `RwLock`,
//! `OnceLock` and the atomics — which are thin wrappers that announce each operation to the
//! simulator first (a scheduling point; for locks also a probe of the real lock state, so that a
//! simulated thread parks instead of blocking in the operating system). The real primitive still
//! does all the work: outside a simulated execution the wrappers are plain pass-throughs.

#![allow(missing_docs, clippy::all, unreachable_pub, dead_code)]

use std::fmt;

pub use std::sync::mpsc;
pub use std::sync::{
    Arc, Barrier, BarrierWaitResult, Condvar, LazyLock, LockResult, MutexGuard, Once, OnceState, PoisonError, RwLockReadGuard,
    RwLockWriteGuard, TryLockError, TryLockResult, WaitTimeoutResult, Weak,
};

use super::{before_lock, yield_point};

// ---- Mutex ---------------------------------------------------------------------------------------

pub struct Mutex<T: ?Sized> {
    inner: std::sync::Mutex<T>,
}

impl<T> Mutex<T> {
    pub const fn new(t: T) -> Self {
        Mutex { inner: std::sync::Mutex::new(t) }
    }
    pub fn into_inner(self) -> LockResult<T> {
        self.inner.into_inner()
    }
}

impl<T: ?Sized> Mutex<T> {
    pub fn lock(&self) -> LockResult<MutexGuard<'_, T>> {
        before_lock(&|| matches!(self.inner.try_lock(), Err(TryLockError::WouldBlock)), "sync.mutex.lock");
        self.inner.lock()
    }
    pub fn try_lock(&self) -> TryLockResult<MutexGuard<'_, T>> {
        yield_point("sync.mutex.try_lock");
        self.inner.try_lock()
    }
    pub fn is_poisoned(&self) -> bool {
        self.inner.is_poisoned()
    }
    pub fn clear_poison(&self) {
        self.inner.clear_poison()
    }
    pub fn get_mut(&mut self) -> LockResult<&mut T> {
        self.inner.get_mut()
    }
}

impl<T: Default> Default for Mutex<T> {
    fn default() -> Self {
        Mutex::new(T::default())
    }
}
impl<T> From<T> for Mutex<T> {
    fn from(t: T) -> Self {
        Mutex::new(t)
    }
}
impl<T: ?Sized + fmt::Debug> fmt::Debug for Mutex<T> {
    fn fmt(&self, f: &mut fmt::Formatter<'_>) -> fmt::Result {
        self.inner.fmt(f)
    }
}

// ---- RwLock --------------------------------------------------------------------------------------

pub struct RwLock<T: ?Sized> {
    inner: std::sync::RwLock<T>,
}

impl<T> RwLock<T> {
    pub const fn new(t: T) -> Self {
        RwLock { inner: std::sync::RwLock::new(t) }
    }
    pub fn into_inner(self) -> LockResult<T> {
        self.inner.into_inner()
    }
}

impl<T: ?Sized> RwLock<T> {
    pub fn read(&self) -> LockResult<RwLockReadGuard<'_, T>> {
        before_lock(&|| matches!(self.inner.try_read(), Err(TryLockError::WouldBlock)), "sync.rwlock.read");
        self.inner.read()
    }
    pub fn write(&self) -> LockResult<RwLockWriteGuard<'_, T>> {
        before_lock(&|| matches!(self.inner.try_write(), Err(TryLockError::WouldBlock)), "sync.rwlock.write");
        self.inner.write()
    }
    pub fn try_read(&self) -> TryLockResult<RwLockReadGuard<'_, T>> {
        yield_point("sync.rwlock.try_read");
        self.inner.try_read()
    }
    pub fn try_write(&self) -> TryLockResult<RwLockWriteGuard<'_, T>> {
        yield_point("sync.rwlock.try_write");
        self.inner.try_write()
    }
    pub fn is_poisoned(&self) -> bool {
        self.inner.is_poisoned()
    }
    pub fn clear_poison(&self) {
        self.inner.clear_poison()
    }
    pub fn get_mut(&mut self) -> LockResult<&mut T> {
        self.inner.get_mut()
    }
}

impl<T: Default> Default for RwLock<T> {
    fn default() -> Self {
        RwLock::new(T::default())
    }
}
impl<T> From<T> for RwLock<T> {
    fn from(t: T) -> Self {
        RwLock::new(t)
    }
}
impl<T: ?Sized + fmt::Debug> fmt::Debug for RwLock<T> {
    fn fmt(&self, f: &mut fmt::Formatter<'_>) -> fmt::Result {
        self.inner.fmt(f)
    }
}

// ---- OnceLock ------------------------------------------------------------------------------------

pub struct OnceLock<T> {
    inner: std::sync::OnceLock<T>,
}

impl<T> OnceLock<T> {
    pub const fn new() -> Self {
        OnceLock { inner: std::sync::OnceLock::new() }
    }
    pub fn get(&self) -> Option<&T> {
        yield_point("sync.oncelock.get");
        self.inner.get()
    }
    pub fn get_mut(&mut self) -> Option<&mut T> {
        self.inner.get_mut()
    }
    pub fn set(&self, value: T) -> Result<(), T> {
        yield_point("sync.oncelock.set");
        self.inner.set(value)
    }
    pub fn get_or_init<F: FnOnce() -> T>(&self, f: F) -> &T {
        yield_point("sync.oncelock.get_or_init");
        self.inner.get_or_init(f)
    }
    pub fn into_inner(self) -> Option<T> {
        self.inner.into_inner()
    }
    pub fn take(&mut self) -> Option<T> {
        self.inner.take()
    }
}

impl<T> Default for OnceLock<T> {
    fn default() -> Self {
        OnceLock::new()
    }
}
impl<T: fmt::Debug> fmt::Debug for OnceLock<T> {
    fn fmt(&self, f: &mut fmt::Formatter<'_>) -> fmt::Result {
        self.inner.fmt(f)
    }
}
impl<T: Clone> Clone for OnceLock<T> {
    fn clone(&self) -> Self {
        OnceLock { inner: self.inner.clone() }
    }
}
impl<T> From<T> for OnceLock<T> {
    fn from(t: T) -> Self {
        OnceLock { inner: std::sync::OnceLock::from(t) }
    }
}
impl<T: PartialEq> PartialEq for OnceLock<T> {
    fn eq(&self, other: &Self) -> bool {
        self.inner == other.inner
    }
}
impl<T: Eq> Eq for OnceLock<T> {}

// ---- atomics -------------------------------------------------------------------------------------

pub mod atomic {
    use super::super::yield_point;
    use std::fmt;
    pub use std::sync::atomic::{compiler_fence, fence, AtomicPtr, Ordering};

    macro_rules! atomic_int {
        ($name:ident, $std:ty, $prim:ty) => {
            #[repr(transparent)]
            pub struct $name {
                inner: $std,
            }
            impl $name {
                pub const fn new(v: $prim) -> Self {
                    $name { inner: <$std>::new(v) }
                }
                pub fn get_mut(&mut self) -> &mut $prim {
                    self.inner.get_mut()
                }
                pub fn into_inner(self) -> $prim {
                    self.inner.into_inner()
                }
                pub fn load(&self, o: Ordering) -> $prim {
                    yield_point("sync.atomic.load");
                    self.inner.load(o)
                }
                pub fn store(&self, v: $prim, o: Ordering) {
                    yield_point("sync.atomic.store");
                    self.inner.store(v, o)
                }
                pub fn swap(&self, v: $prim, o: Ordering) -> $prim {
                    yield_point("sync.atomic.rmw");
                    self.inner.swap(v, o)
                }
                pub fn compare_exchange(&self, c: $prim, n: $prim, s: Ordering, f: Ordering) -> Result<$prim, $prim> {
                    yield_point("sync.atomic.rmw");
                    self.inner.compare_exchange(c, n, s, f)
                }
                pub fn compare_exchange_weak(&self, c: $prim, n: $prim, s: Ordering, f: Ordering) -> Result<$prim, $prim> {
                    yield_point("sync.atomic.rmw");
                    self.inner.compare_exchange(c, n, s, f)
                }
                pub fn fetch_add(&self, v: $prim, o: Ordering) -> $prim {
                    yield_point("sync.atomic.rmw");
                    self.inner.fetch_add(v, o)
                }
                pub fn fetch_sub(&self, v: $prim, o: Ordering) -> $prim {
                    yield_point("sync.atomic.rmw");
                    self.inner.fetch_sub(v, o)
                }
                pub fn fetch_and(&self, v: $prim, o: Ordering) -> $prim {
                    yield_point("sync.atomic.rmw");
                    self.inner.fetch_and(v, o)
                }
                pub fn fetch_nand(&self, v: $prim, o: Ordering) -> $prim {
                    yield_point("sync.atomic.rmw");
                    self.inner.fetch_nand(v, o)
                }
                pub fn fetch_or(&self, v: $prim, o: Ordering) -> $prim {
                    yield_point("sync.atomic.rmw");
                    self.inner.fetch_or(v, o)
                }
                pub fn fetch_xor(&self, v: $prim, o: Ordering) -> $prim {
                    yield_point("sync.atomic.rmw");
                    self.inner.fetch_xor(v, o)
                }
                pub fn fetch_max(&self, v: $prim, o: Ordering) -> $prim {
                    yield_point("sync.atomic.rmw");
                    self.inner.fetch_max(v, o)
                }
                pub fn fetch_min(&self, v: $prim, o: Ordering) -> $prim {
                    yield_point("sync.atomic.rmw");
                    self.inner.fetch_min(v, o)
                }
                pub fn fetch_update<F: FnMut($prim) -> Option<$prim>>(&self, s: Ordering, f: Ordering, g: F) -> Result<$prim, $prim> {
                    yield_point("sync.atomic.rmw");
                    self.inner.fetch_update(s, f, g)
                }
            }
            impl Default for $name {
                fn default() -> Self {
                    $name::new(Default::default())
                }
            }
            impl From<$prim> for $name {
                fn from(v: $prim) -> Self {
                    $name::new(v)
                }
            }
            impl fmt::Debug for $name {
                fn fmt(&self, f: &mut fmt::Formatter<'_>) -> fmt::Result {
                    self.inner.fmt(f)
                }
            }
        };
    }

    atomic_int!(AtomicUsize, std::sync::atomic::AtomicUsize, usize);
    atomic_int!(AtomicIsize, std::sync::atomic::AtomicIsize, isize);
    atomic_int!(AtomicU8, std::sync::atomic::AtomicU8, u8);
    atomic_int!(AtomicU16, std::sync::atomic::AtomicU16, u16);
    atomic_int!(AtomicU32, std::sync::atomic::AtomicU32, u32);
    atomic_int!(AtomicU64, std::sync::atomic::AtomicU64, u64);
    atomic_int!(AtomicI8, std::sync::atomic::AtomicI8, i8);
    atomic_int!(AtomicI16, std::sync::atomic::AtomicI16, i16);
    atomic_int!(AtomicI32, std::sync::atomic::AtomicI32, i32);
    atomic_int!(AtomicI64, std::sync::atomic::AtomicI64, i64);

    #[repr(transparent)]
    pub struct AtomicBool {
        inner: std::sync::atomic::AtomicBool,
    }
    impl AtomicBool {
        pub const fn new(v: bool) -> Self {
            AtomicBool { inner: std::sync::atomic::AtomicBool::new(v) }
        }
        pub fn get_mut(&mut self) -> &mut bool {
            self.inner.get_mut()
        }
        pub fn into_inner(self) -> bool {
            self.inner.into_inner()
        }
        pub fn load(&self, o: Ordering) -> bool {
            yield_point("sync.atomic.load");
            self.inner.load(o)
        }
        pub fn store(&self, v: bool, o: Ordering) {
            yield_point("sync.atomic.store");
            self.inner.store(v, o)
        }
        pub fn swap(&self, v: bool, o: Ordering) -> bool {
            yield_point("sync.atomic.rmw");
            self.inner.swap(v, o)
        }
        pub fn compare_exchange(&self, c: bool, n: bool, s: Ordering, f: Ordering) -> Result<bool, bool> {
            yield_point("sync.atomic.rmw");
            self.inner.compare_exchange(c, n, s, f)
        }
        pub fn compare_exchange_weak(&self, c: bool, n: bool, s: Ordering, f: Ordering) -> Result<bool, bool> {
            yield_point("sync.atomic.rmw");
            self.inner.compare_exchange(c, n, s, f)
        }
        pub fn fetch_and(&self, v: bool, o: Ordering) -> bool {
            yield_point("sync.atomic.rmw");
            self.inner.fetch_and(v, o)
        }
        pub fn fetch_nand(&self, v: bool, o: Ordering) -> bool {
            yield_point("sync.atomic.rmw");
            self.inner.fetch_nand(v, o)
        }
        pub fn fetch_or(&self, v: bool, o: Ordering) -> bool {
            yield_point("sync.atomic.rmw");
            self.inner.fetch_or(v, o)
        }
        pub fn fetch_xor(&self, v: bool, o: Ordering) -> bool {
            yield_point("sync.atomic.rmw");
            self.inner.fetch_xor(v, o)
        }
        pub fn fetch_not(&self, o: Ordering) -> bool {
            yield_point("sync.atomic.rmw");
            self.inner.fetch_xor(true, o)
        }
        pub fn fetch_update<F: FnMut(bool) -> Option<bool>>(&self, s: Ordering, f: Ordering, g: F) -> Result<bool, bool> {
            yield_point("sync.atomic.rmw");
            self.inner.fetch_update(s, f, g)
        }
    }
    impl Default for AtomicBool {
        fn default() -> Self {
            AtomicBool::new(false)
        }
    }
    impl From<bool> for AtomicBool {
        fn from(v: bool) -> Self {
            AtomicBool::new(v)
        }
    }
    impl fmt::Debug for AtomicBool {
        fn fmt(&self, f: &mut fmt::Formatter<'_>) -> fmt::Result {
            self.inner.fmt(f)
        }
    }
}

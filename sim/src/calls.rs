//! Render calls as letters of a history alphabet.

use crate::seams::{FaultPlan, SimGlobals};
use crate::world::{self, Outcome};
use serde::{Deserialize, Serialize};

#[derive(Clone, Debug, PartialEq, Eq, Serialize, Deserialize)]
pub enum Mode {
    /// `Template::render`
    Buffered,
    /// `Template::render_to` on an infallible sink
    Streamed,
    /// `Template::render_to` with a sink executing the plan
    Faulted(FaultPlan),
}

#[derive(Clone, Debug, PartialEq, Eq, Serialize, Deserialize)]
pub struct Call {
    pub t: usize,
    pub d: usize,
    pub mode: Mode,
}

impl Call {
    pub fn show(&self) -> String {
        let m = match &self.mode {
            Mode::Buffered => "render".to_string(),
            Mode::Streamed => "render_to".to_string(),
            Mode::Faulted(p) => match p.hard {
                Some(h) => format!("render_to[sink fails at write {} {:?}{}]", h.at, h.kind, if h.sticky { " sticky" } else { "" }),
                None => "render_to[transparent faults]".to_string(),
            },
        };
        format!("{m}(t{}, d{})", self.t, self.d)
    }
}

pub struct ExecStats {
    pub sink_calls: u64,
    pub hard_fired: bool,
}

pub fn exec(call: &Call, templates: &[liquid::Template], globals: &[SimGlobals]) -> (Outcome, ExecStats) {
    let t = &templates[call.t];
    let g: &dyn liquid::ObjectView = &globals[call.d];
    match &call.mode {
        Mode::Buffered => (world::render_buffered(t, g), ExecStats { sink_calls: 0, hard_fired: false }),
        Mode::Streamed => {
            let (o, r) = world::render_streamed(t, g, &FaultPlan::none());
            (o, ExecStats { sink_calls: r.phys_calls as u64, hard_fired: false })
        }
        Mode::Faulted(p) => {
            let (o, r) = world::render_streamed(t, g, p);
            (o, ExecStats { sink_calls: r.phys_calls as u64, hard_fired: r.hard_returned })
        }
    }
}

//! Stubs the simulator owns: the output sink, the partial source, the caller data and a probe tag.

use crate::sched;
use liquid::model::{KStringCow, Object, State, Value};
use liquid::{ObjectView, ValueView};
use liquid_core::model::DisplayCow;
use liquid_core::partials::PartialSource;
use liquid_core::{Expression, Language, ParseTag, Renderable, Runtime, TagReflection, TagTokenIter};
use serde::{Deserialize, Serialize};
use std::collections::BTreeMap;
use std::io;
use std::sync::{Arc, Mutex};

// ---------------------------------------------------------------------------------------------
// Sink
// ---------------------------------------------------------------------------------------------

#[derive(Clone, Copy, Debug, PartialEq, Eq, Serialize, Deserialize, PartialOrd, Ord)]
pub enum IoKind {
    Other,
    BrokenPipe,
    WouldBlock,
    StorageFull,
    TimedOut,
    ConnectionReset,
    PermissionDenied,
    UnexpectedEof,
    WriteZero,
    Unsupported,
}

pub const IO_KINDS: [IoKind; 10] = [
    IoKind::Other,
    IoKind::BrokenPipe,
    IoKind::WouldBlock,
    IoKind::StorageFull,
    IoKind::TimedOut,
    IoKind::ConnectionReset,
    IoKind::PermissionDenied,
    IoKind::UnexpectedEof,
    IoKind::WriteZero,
    IoKind::Unsupported,
];

impl IoKind {
    fn to_err(self) -> io::Error {
        let k = match self {
            IoKind::Other => io::ErrorKind::Other,
            IoKind::BrokenPipe => io::ErrorKind::BrokenPipe,
            IoKind::WouldBlock => io::ErrorKind::WouldBlock,
            IoKind::StorageFull => io::ErrorKind::StorageFull,
            IoKind::TimedOut => io::ErrorKind::TimedOut,
            IoKind::ConnectionReset => io::ErrorKind::ConnectionReset,
            IoKind::PermissionDenied => io::ErrorKind::PermissionDenied,
            IoKind::UnexpectedEof => io::ErrorKind::UnexpectedEof,
            IoKind::WriteZero => io::ErrorKind::WriteZero,
            IoKind::Unsupported => io::ErrorKind::Unsupported,
        };
        io::Error::new(k, "injected sink fault")
    }
}

#[derive(Clone, Copy, Debug, PartialEq, Eq, Serialize, Deserialize, PartialOrd, Ord)]
pub enum HardKind {
    /// `write` returns `Err(kind)`.
    Err(IoKind),
    /// `write` returns `Ok(0)`.
    Zero,
    /// `write` accepts `n` bytes (0 < n < len) and the next call returns `Err(kind)`.
    ShortThenErr(usize, IoKind),
}

#[derive(Clone, Copy, Debug, PartialEq, Eq, Serialize, Deserialize)]
pub struct HardFault {
    /// 1-based index of the logical write call (retries of a short/interrupted call don't count).
    pub at: usize,
    pub kind: HardKind,
    /// Sticky: every later call fails too. One-shot: later calls are accepted (and recorded).
    pub sticky: bool,
}

#[derive(Clone, Debug, Default, PartialEq, Eq, Serialize, Deserialize)]
pub struct FaultPlan {
    pub hard: Option<HardFault>,
    /// Every call of >1 byte is cut short at a position drawn from this seed.
    pub short_every: Option<u64>,
    /// (logical call, accepted bytes) single short writes.
    pub short_at: Vec<(usize, usize)>,
    /// (logical call, how many times `Interrupted` is returned first).
    pub eintr_at: Vec<(usize, u8)>,
    /// Interrupt each logical call with probability p/1024 (seed, p).
    pub eintr_every: Option<(u64, u16)>,
}

impl FaultPlan {
    pub fn none() -> Self {
        Self::default()
    }
    pub fn hard(at: usize, kind: HardKind, sticky: bool) -> Self {
        FaultPlan { hard: Some(HardFault { at, kind, sticky }), ..Default::default() }
    }
    pub fn is_transparent(&self) -> bool {
        self.hard.is_none()
    }
}

#[derive(Default, Clone, Debug)]
pub struct SinkStats {
    pub hard_fired: u64,
    pub short_fired: u64,
    pub eintr_fired: u64,
    pub zero_fired: u64,
}

/// Calls tolerated after a hard fault before the sink unwinds the render (see `write`).
pub const SINK_RUNAWAY_LIMIT: usize = 20_000;

pub struct SimSink {
    plan: FaultPlan,
    rng: crate::prng::Rng,
    pub accepted: Vec<u8>,
    /// Length of every logical call's buffer (fault-free run: the chunk boundaries).
    pub chunks: Vec<usize>,
    pub phys_calls: usize,
    pub logical: usize,
    continuation: bool,
    fail_next: Option<IoKind>,
    eintr_left: u8,
    pub hard_returned: bool,
    hard_kind_for_sticky: IoKind,
    pub calls_after_hard: usize,
    pub bytes_after_hard: usize,
    pub flushes: usize,
    pub flushes_after_hard: usize,
    pub first_eintr_returned: bool,
    pub calls_after_first_eintr: usize,
    pub stats: SinkStats,
}

impl SimSink {
    pub fn new(plan: FaultPlan) -> Self {
        let seed = plan.short_every.unwrap_or(0) ^ plan.eintr_every.map(|e| e.0).unwrap_or(0);
        SimSink {
            plan,
            rng: crate::prng::Rng::new(seed),
            accepted: Vec::new(),
            chunks: Vec::new(),
            phys_calls: 0,
            logical: 0,
            continuation: false,
            fail_next: None,
            eintr_left: 0,
            hard_returned: false,
            hard_kind_for_sticky: IoKind::Other,
            calls_after_hard: 0,
            bytes_after_hard: 0,
            flushes: 0,
            flushes_after_hard: 0,
            first_eintr_returned: false,
            calls_after_first_eintr: 0,
            stats: SinkStats::default(),
        }
    }
}

impl io::Write for SimSink {
    fn write(&mut self, buf: &[u8]) -> io::Result<usize> {
        self.phys_calls += 1;
        if self.first_eintr_returned {
            self.calls_after_first_eintr += 1;
        }
        sched::yield_point("sink.write");
        if self.hard_returned {
            self.calls_after_hard += 1;
            self.bytes_after_hard += buf.len();
            if self.calls_after_hard > SINK_RUNAWAY_LIMIT {
                // a library that keeps retrying a failed sink for ever must end as a violation
                // ("performs no further writes"), not as a hang of the checker
                panic!("SINK-RUNAWAY: {} write calls after the sink had failed", self.calls_after_hard);
            }
            let sticky = self.plan.hard.map(|h| h.sticky).unwrap_or(true);
            if sticky {
                return Err(self.hard_kind_for_sticky.to_err());
            }
            self.accepted.extend_from_slice(buf);
            return Ok(buf.len());
        }
        if let Some(k) = self.fail_next.take() {
            self.hard_returned = true;
            self.hard_kind_for_sticky = k;
            self.stats.hard_fired += 1;
            return Err(k.to_err());
        }
        let fresh = !self.continuation;
        if fresh {
            self.logical += 1;
            self.chunks.push(buf.len());
            self.eintr_left = self
                .plan
                .eintr_at
                .iter()
                .find(|(at, _)| *at == self.logical)
                .map(|(_, m)| *m)
                .unwrap_or(0);
            if let Some((_, p)) = self.plan.eintr_every {
                if self.rng.chance(p as u32, 1024) {
                    self.eintr_left = self.eintr_left.max(1 + self.rng.below(3) as u8);
                }
            }
            if let Some(h) = self.plan.hard {
                if h.at == self.logical {
                    match h.kind {
                        HardKind::Err(k) => {
                            self.hard_returned = true;
                            self.hard_kind_for_sticky = k;
                            self.stats.hard_fired += 1;
                            return Err(k.to_err());
                        }
                        HardKind::Zero => {
                            self.hard_returned = true;
                            self.stats.hard_fired += 1;
                            self.stats.zero_fired += 1;
                            return Ok(0);
                        }
                        HardKind::ShortThenErr(n, k) => {
                            if buf.len() >= 2 {
                                let n = n.clamp(1, buf.len() - 1);
                                self.accepted.extend_from_slice(&buf[..n]);
                                self.fail_next = Some(k);
                                self.continuation = true;
                                self.stats.short_fired += 1;
                                return Ok(n);
                            } else {
                                // cannot be short on a one-byte call: fail it outright
                                self.hard_returned = true;
                                self.hard_kind_for_sticky = k;
                                self.stats.hard_fired += 1;
                                return Err(k.to_err());
                            }
                        }
                    }
                }
            }
        }
        if self.eintr_left > 0 {
            self.eintr_left -= 1;
            self.continuation = true;
            self.stats.eintr_fired += 1;
            self.first_eintr_returned = true;
            return Err(io::Error::new(io::ErrorKind::Interrupted, "injected EINTR"));
        }
        if buf.len() >= 2 {
            let mut n = None;
            if fresh {
                if let Some((_, m)) = self.plan.short_at.iter().find(|(at, _)| *at == self.logical) {
                    n = Some((*m).clamp(1, buf.len() - 1));
                }
            }
            if n.is_none() && self.plan.short_every.is_some() && self.rng.chance(3, 4) {
                n = Some(1 + self.rng.below(buf.len() - 1));
            }
            if let Some(n) = n {
                self.accepted.extend_from_slice(&buf[..n]);
                self.continuation = true;
                self.stats.short_fired += 1;
                return Ok(n);
            }
        }
        self.accepted.extend_from_slice(buf);
        self.continuation = false;
        Ok(buf.len())
    }

    fn flush(&mut self) -> io::Result<()> {
        self.flushes += 1;
        if self.hard_returned {
            self.flushes_after_hard += 1;
        }
        Ok(())
    }
}

// ---------------------------------------------------------------------------------------------
// Partial source
// ---------------------------------------------------------------------------------------------

#[derive(Debug, Default)]
pub struct SourceCounters {
    pub reads: BTreeMap<String, u64>,
    pub total_reads: u64,
    pub misses: u64,
    pub misses_by_name: BTreeMap<String, u64>,
}

#[derive(Debug)]
struct SourceInner {
    /// The library's own in-memory source does the storing and the name matching (it is named in
    /// C19's quantifier); the stub around it only counts, rotates the listing and yields.
    mem: liquid_core::partials::InMemorySource,
    listing_rot: usize,
    counters: Mutex<SourceCounters>,
}

/// The library's "disk": `InMemorySource` behind a counting, yielding wrapper.
#[derive(Debug, Clone)]
pub struct SimSource {
    inner: Arc<SourceInner>,
}

impl SimSource {
    /// `listing_rot` rotates the order in which `names()` lists the partials.
    pub fn new(map: &BTreeMap<String, String>, listing_rot: usize) -> Self {
        let mut mem = liquid_core::partials::InMemorySource::new();
        for (k, v) in map {
            mem.add(k.clone(), v.clone());
        }
        SimSource { inner: Arc::new(SourceInner { mem, listing_rot, counters: Mutex::new(SourceCounters::default()) }) }
    }
    pub fn total_reads(&self) -> u64 {
        self.inner.counters.lock().unwrap_or_else(|e| e.into_inner()).total_reads
    }
    pub fn reads_of(&self, name: &str) -> u64 {
        self.inner.counters.lock().unwrap_or_else(|e| e.into_inner()).reads.get(name).copied().unwrap_or(0)
    }
    pub fn misses_of(&self, name: &str) -> u64 {
        self.inner.counters.lock().unwrap_or_else(|e| e.into_inner()).misses_by_name.get(name).copied().unwrap_or(0)
    }
    pub fn max_reads_per_name(&self) -> u64 {
        self.inner.counters.lock().unwrap_or_else(|e| e.into_inner()).reads.values().copied().max().unwrap_or(0)
    }
}

impl PartialSource for SimSource {
    fn contains(&self, name: &str) -> bool {
        self.inner.mem.contains(name)
    }

    fn names(&self) -> Vec<&str> {
        // InMemorySource lists in (random) hash order; the order is unspecified, so fix one and
        // rotate it per run
        let mut v = self.inner.mem.names();
        v.sort_unstable();
        if !v.is_empty() {
            let r = self.inner.listing_rot % v.len();
            v.rotate_left(r);
        }
        v
    }

    fn try_get<'a>(&'a self, name: &str) -> Option<std::borrow::Cow<'a, str>> {
        sched::yield_point("source.read");
        let r = self.inner.mem.try_get(name);
        {
            let mut c = self.inner.counters.lock().unwrap_or_else(|e| e.into_inner());
            c.total_reads += 1;
            if r.is_some() {
                *c.reads.entry(name.to_string()).or_insert(0) += 1;
            } else {
                c.misses += 1;
                *c.misses_by_name.entry(name.to_string()).or_insert(0) += 1;
            }
        }
        sched::yield_point("source.read.done");
        r
    }
}

// ---------------------------------------------------------------------------------------------
// Caller data
// ---------------------------------------------------------------------------------------------

/// Caller data: every lookup is a scheduling point in threaded runs.
#[derive(Debug, Clone)]
pub struct SimGlobals {
    pub inner: Object,
}

impl SimGlobals {
    pub fn new(inner: Object) -> Self {
        SimGlobals { inner }
    }
}

impl ValueView for SimGlobals {
    fn as_debug(&self) -> &dyn std::fmt::Debug {
        self
    }
    fn render(&self) -> DisplayCow<'_> {
        self.inner.render()
    }
    fn source(&self) -> DisplayCow<'_> {
        self.inner.source()
    }
    fn type_name(&self) -> &'static str {
        "object"
    }
    fn query_state(&self, state: State) -> bool {
        self.inner.query_state(state)
    }
    fn to_kstr(&self) -> KStringCow<'_> {
        self.inner.to_kstr()
    }
    fn to_value(&self) -> Value {
        self.inner.to_value()
    }
    fn as_object(&self) -> Option<&dyn ObjectView> {
        Some(self)
    }
}

impl ObjectView for SimGlobals {
    fn as_value(&self) -> &dyn ValueView {
        self
    }
    fn size(&self) -> i64 {
        ObjectView::size(&self.inner)
    }
    fn keys<'k>(&'k self) -> Box<dyn Iterator<Item = KStringCow<'k>> + 'k> {
        ObjectView::keys(&self.inner)
    }
    fn values<'k>(&'k self) -> Box<dyn Iterator<Item = &'k dyn ValueView> + 'k> {
        ObjectView::values(&self.inner)
    }
    fn iter<'k>(&'k self) -> Box<dyn Iterator<Item = (KStringCow<'k>, &'k dyn ValueView)> + 'k> {
        ObjectView::iter(&self.inner)
    }
    fn contains_key(&self, index: &str) -> bool {
        sched::yield_point("data.contains");
        ObjectView::contains_key(&self.inner, index)
    }
    fn get<'s>(&'s self, index: &str) -> Option<&'s dyn ValueView> {
        sched::yield_point("data.get");
        ObjectView::get(&self.inner, index)
    }
}

// ---------------------------------------------------------------------------------------------
// Probe tag: `{% probe 'name' %}` prints 1/0 for partials().try_get(name).is_some()
// ---------------------------------------------------------------------------------------------

#[derive(Clone, Copy, Debug, Default)]
pub struct ProbeTag;

impl TagReflection for ProbeTag {
    fn tag(&self) -> &str {
        "probe"
    }
    fn description(&self) -> &str {
        "simulator probe: is the named partial obtainable through try_get"
    }
}

impl ParseTag for ProbeTag {
    fn parse(&self, mut arguments: TagTokenIter<'_>, _options: &Language) -> liquid_core::Result<Box<dyn Renderable>> {
        let name = arguments.expect_next("Identifier or literal expected.")?.expect_value().into_result()?;
        arguments.expect_nothing()?;
        Ok(Box::new(Probe { name }))
    }
    fn reflection(&self) -> &dyn TagReflection {
        self
    }
}

#[derive(Debug)]
struct Probe {
    name: Expression,
}

impl Renderable for Probe {
    fn render_to(&self, writer: &mut dyn io::Write, runtime: &dyn Runtime) -> liquid_core::Result<()> {
        use liquid_core::error::ResultLiquidReplaceExt;
        let v = self.name.evaluate(runtime)?;
        let name = v.to_kstr().into_owned();
        let hit = runtime.partials().try_get(name.as_str()).is_some();
        write!(writer, "{}", if hit { "1" } else { "0" }).replace("Failed to render")?;
        Ok(())
    }
}

//! Deterministic scheduler over real OS threads.
//!
//! Every task of an execution is a real thread, but exactly one holds the "baton" at any
//! time; at each seam crossing (sink write, source read, data lookup, the repo's yield points,
//! lock admission) the running task asks the scheduler who runs next. The choice comes from a
//! seeded policy (or from a recorded trace when replaying), so one seed is one interleaving.
//!
//! Real threads (rather than coroutines on one OS thread) keep `thread_local!` state per task,
//! exactly as in production, and let a watchdog recover when a task blocks on a primitive the
//! simulator does not own (it is then marked *lost*, somebody else gets the baton, and the run
//! is flagged as not strictly deterministic instead of hanging).

use crate::prng::{Fnv, Rng};
use std::cell::{Cell, RefCell};
use std::collections::BTreeMap;
use std::sync::{Arc, Condvar, Mutex};
use std::time::{Duration, Instant};

#[derive(Clone, Debug, PartialEq, Eq, serde::Serialize, serde::Deserialize)]
pub enum Policy {
    /// Uniform choice among runnable tasks at every point.
    Random,
    /// Keep the current task with probability keep/16, else uniform among the others.
    Sticky { keep: u8 },
    /// PCT-style: random priorities, `depth-1` priority change points in `horizon` steps.
    Pct { depth: u8, horizon: u32 },
    /// Random, plus tasks that only become eligible after `skew` steps and random stalls.
    Skewed { max_skew: u32, stall_per_1024: u16 },
    /// Replay a recorded trace of chosen task ids.
    Replay(Vec<u8>),
}

/// Pointer to the "is the real lock still held" probe of a parked task. It points into the
/// stack frame of the task that is parked inside `lock_wait`, which outlives every use.
#[derive(Clone, Copy)]
struct Probe(*const (dyn Fn() -> bool + 'static));
unsafe impl Send for Probe {}

impl Probe {
    fn locked(&self) -> bool {
        unsafe { (*self.0)() }
    }
}

#[derive(Clone, Copy)]
enum TState {
    Runnable,
    /// Parked before a lock whose real state is read through the probe.
    Waiting(Probe),
    Finished,
    Lost,
}

impl TState {
    fn name(&self) -> &'static str {
        match self {
            TState::Runnable => "runnable",
            TState::Waiting(_) => "waiting-for-lock",
            TState::Finished => "finished",
            TState::Lost => "lost",
        }
    }
    fn is_lost(&self) -> bool {
        matches!(self, TState::Lost)
    }
}

fn describe(states: &[TState]) -> String {
    states.iter().map(|s| s.name()).collect::<Vec<_>>().join(", ")
}

#[derive(Clone, Debug, PartialEq, Eq)]
pub enum Abort {
    Deadlock(String),
    StepBound(u64),
    Stalled(String),
}

struct AbortExecution;

#[derive(Default, Clone, Debug)]
pub struct SchedStats {
    pub steps: u64,
    pub switches: u64,
    pub sites: BTreeMap<&'static str, u64>,
    pub lock_blocked: u64,
    pub max_waiters: usize,
    pub switch_inside_render: u64,
    pub stalls_fired: u64,
    pub lost_events: u64,
    pub replay_diverged: bool,
}

struct Inner {
    n: usize,
    state: Vec<TState>,
    current: Option<usize>,
    policy: Policy,
    rng: Rng,
    prio: Vec<u32>,
    change_points: Vec<u64>,
    start_at: Vec<u64>,
    stalled_until: Vec<u64>,
    replay_pos: usize,
    trace: Vec<u8>,
    digest: Fnv,
    step_bound: u64,
    abort: Option<Abort>,
    finished: usize,
    progress: u64,
    stats: SchedStats,
}

pub struct Sched {
    inner: Mutex<Inner>,
    cvs: Vec<Condvar>,
    done: Condvar,
}

thread_local! {
    static CUR: RefCell<Option<(Arc<Sched>, usize)>> = const { RefCell::new(None) };
    static HASH_STREAM: Cell<Option<(u64, u64)>> = const { Cell::new(None) };
    static LAST_PANIC: RefCell<Option<String>> = const { RefCell::new(None) };
}

/// Install the repo hooks and a silent panic hook. Idempotent.
pub fn install_hooks() {
    static ONCE: std::sync::Once = std::sync::Once::new();
    ONCE.call_once(|| {
        liquid_core::verif::install(liquid_core::verif::Hooks {
            before_lock: hook_before_lock,
            yield_point: hook_yield,
            next_hash_seed: hook_hash_seed,
        });
        std::panic::set_hook(Box::new(|info| {
            let loc = info
                .location()
                .map(|l| format!("{}:{}", l.file(), l.line()))
                .unwrap_or_default();
            let msg = if let Some(s) = info.payload().downcast_ref::<&str>() {
                (*s).to_string()
            } else if let Some(s) = info.payload().downcast_ref::<String>() {
                s.clone()
            } else {
                "<non-string panic>".to_string()
            };
            LAST_PANIC.with(|p| *p.borrow_mut() = Some(format!("{msg} @ {loc}")));
        }));
    });
}

/// Message of the pseudo-panic that ends a render exceeding its element budget.
pub const BUDGET_MSG: &str = "__element_budget_exceeded__";

pub fn take_last_panic() -> Option<String> {
    LAST_PANIC.with(|p| p.borrow_mut().take())
}

/// Run `f` catching panics; returns Err(message) on panic.
pub fn catch<R>(f: impl FnOnce() -> R) -> Result<R, String> {
    let _ = take_last_panic();
    match std::panic::catch_unwind(std::panic::AssertUnwindSafe(f)) {
        Ok(r) => Ok(r),
        Err(payload) => {
            if payload.is::<AbortExecution>() {
                // the scheduler is tearing the execution down: keep unwinding to the task wrapper
                std::panic::resume_unwind(payload);
            }
            if payload.is::<BudgetExceeded>() {
                return Err(BUDGET_MSG.to_string());
            }
            let msg = take_last_panic().unwrap_or_else(|| {
                if let Some(s) = payload.downcast_ref::<&str>() {
                    (*s).to_string()
                } else if let Some(s) = payload.downcast_ref::<String>() {
                    s.clone()
                } else {
                    "<panic>".to_string()
                }
            });
            Err(msg)
        }
    }
}

// ---- hash seed stream -------------------------------------------------------------------

/// All `Object`s built on this thread from now on get seeds `mix(base, 0), mix(base, 1), ..`.
pub fn set_hash_stream(base: Option<u64>) {
    HASH_STREAM.with(|h| h.set(base.map(|b| (b, 0))));
}

pub fn hash_stream_pos() -> Option<(u64, u64)> {
    HASH_STREAM.with(|h| h.get())
}

fn hook_hash_seed() -> Option<u64> {
    HASH_STREAM.with(|h| {
        let (base, ctr) = h.get()?;
        h.set(Some((base, ctr + 1)));
        HASH_SEEDS_DRAWN.with(|c| c.set(c.get() + 1));
        Some(crate::prng::mix64(base ^ crate::prng::mix64(ctr.wrapping_add(0x1234))))
    })
}

thread_local! {
    static HASH_SEEDS_DRAWN: Cell<u64> = const { Cell::new(0) };
}

pub fn hash_seeds_drawn() -> u64 {
    HASH_SEEDS_DRAWN.with(|c| c.get())
}

// ---- hooks ---------------------------------------------------------------------------------

fn with_cur<R>(f: impl FnOnce(&Arc<Sched>, usize) -> R) -> Option<R> {
    let cur = CUR.with(|c| c.borrow().clone());
    cur.map(|(s, t)| f(&s, t))
}

/// Raised (as a panic payload) when one render exceeds its element budget.
pub struct BudgetExceeded;

thread_local! {
    static ELEMENT_BUDGET: Cell<Option<u64>> = const { Cell::new(None) };
}

/// Arm the per-render budget of `template.element` / `parse.element` crossings on this thread.
pub fn arm_budget(n: Option<u64>) {
    ELEMENT_BUDGET.with(|b| b.set(n));
}

fn hook_yield(site: &'static str) {
    if site.ends_with(".element") {
        charge_budget();
    }
    with_cur(|s, t| s.sched_point(t, site));
}

fn charge_budget() {
    ELEMENT_BUDGET.with(|b| {
        if let Some(n) = b.get() {
            if n == 0 {
                b.set(None);
                std::panic::resume_unwind(Box::new(BudgetExceeded));
            }
            b.set(Some(n - 1));
        }
    });
}

/// Seam crossing from the harness's own stubs (sink, source, data). Not charged to the element
/// budget: the number of sink calls depends on the injected faults, the budget must not.
pub fn yield_point(site: &'static str) {
    with_cur(|s, t| s.sched_point(t, site));
}

fn hook_before_lock(is_locked: &dyn Fn() -> bool, site: &'static str) {
    with_cur(|s, t| s.lock_wait(t, is_locked, site));
}

pub fn in_execution() -> bool {
    CUR.with(|c| c.borrow().is_some())
}

// ---- scheduler -----------------------------------------------------------------------------

const RENDER_SITES: &[&str] = &["template.element", "sink.write", "data.get", "data.contains", "expr.evaluate", "filter.evaluate", "registers.get"];

impl Inner {
    fn eligible(&self, t: usize) -> bool {
        match &self.state[t] {
            TState::Runnable => true,
            TState::Waiting(p) => !p.locked(),
            _ => false,
        }
    }

    fn soft_eligible(&self, t: usize) -> bool {
        self.eligible(t)
            && self.stats.steps >= self.start_at[t]
            && self.stats.steps >= self.stalled_until[t]
    }

    /// Pick who runs next. `me` is the task at the scheduling point if it can continue.
    fn choose(&mut self, me: Option<usize>) -> Option<usize> {
        let hard: Vec<usize> = (0..self.n).filter(|&t| self.eligible(t)).collect();
        if hard.is_empty() {
            return None;
        }
        // Skews and stalls are preferences: ignored when nobody else can run.
        let mut cands: Vec<usize> = hard.iter().copied().filter(|&t| self.soft_eligible(t)).collect();
        if cands.is_empty() {
            cands = hard.clone();
        }
        let choice = match &self.policy {
            Policy::Replay(tr) => {
                let want = tr.get(self.replay_pos).map(|&x| x as usize);
                self.replay_pos += 1;
                match want {
                    Some(w) if hard.contains(&w) => w,
                    _ => {
                        self.stats.replay_diverged = true;
                        cands[0]
                    }
                }
            }
            Policy::Random => cands[self.rng.below(cands.len())],
            Policy::Sticky { keep } => {
                let keep = *keep as u32;
                match me {
                    Some(m) if cands.contains(&m) && (cands.len() == 1 || self.rng.chance(keep, 16)) => m,
                    _ => {
                        let others: Vec<usize> = cands.iter().copied().filter(|&t| Some(t) != me).collect();
                        if others.is_empty() {
                            cands[0]
                        } else {
                            others[self.rng.below(others.len())]
                        }
                    }
                }
            }
            Policy::Pct { .. } => {
                if let Some(m) = me {
                    if self.change_points.contains(&self.stats.steps) {
                        // demote the running task below everybody
                        let low = self.prio.iter().copied().min().unwrap_or(0);
                        self.prio[m] = low.saturating_sub(1);
                    }
                }
                *cands.iter().max_by_key(|&&t| self.prio[t]).unwrap()
            }
            Policy::Skewed { stall_per_1024, .. } => {
                let sp = *stall_per_1024 as u32;
                if sp > 0 && cands.len() > 1 && self.rng.chance(sp, 1024) {
                    let v = cands[self.rng.below(cands.len())];
                    let len = 1 + self.rng.below(300) as u64;
                    self.stalled_until[v] = self.stats.steps + len;
                    self.stats.stalls_fired += 1;
                    cands.retain(|&t| t != v);
                }
                cands[self.rng.below(cands.len())]
            }
        };
        self.trace.push(choice as u8);
        Some(choice)
    }
}

impl Sched {
    pub fn new(n: usize, policy: Policy, seed: u64, step_bound: u64) -> Arc<Sched> {
        let mut rng = Rng::new(seed);
        let mut prio: Vec<u32> = (0..n as u32).map(|i| 1000 + i).collect();
        rng.shuffle(&mut prio);
        let mut change_points = vec![];
        let mut start_at = vec![0u64; n];
        match &policy {
            Policy::Pct { depth, horizon } => {
                for _ in 1..*depth {
                    change_points.push(rng.below(*horizon as usize + 1) as u64);
                }
            }
            Policy::Skewed { max_skew, .. } => {
                for s in start_at.iter_mut() {
                    if rng.chance(1, 2) {
                        *s = rng.below(*max_skew as usize + 1) as u64;
                    }
                }
            }
            _ => {}
        }
        Arc::new(Sched {
            inner: Mutex::new(Inner {
                n,
                state: vec![TState::Runnable; n],
                current: None,
                policy,
                rng,
                prio,
                change_points,
                start_at,
                stalled_until: vec![0; n],
                replay_pos: 0,
                trace: Vec::new(),
                digest: Fnv::new(),
                step_bound,
                abort: None,
                finished: 0,
                progress: 0,
                stats: SchedStats::default(),
            }),
            cvs: (0..n).map(|_| Condvar::new()).collect(),
            done: Condvar::new(),
        })
    }

    fn lock(&self) -> std::sync::MutexGuard<'_, Inner> {
        self.inner.lock().unwrap_or_else(|e| e.into_inner())
    }

    /// Block until task `t` holds the baton (or the execution is aborted → unwind).
    fn wait_for_baton<'a>(&'a self, mut g: std::sync::MutexGuard<'a, Inner>, t: usize) -> std::sync::MutexGuard<'a, Inner> {
        loop {
            if g.abort.is_some() {
                drop(g);
                std::panic::resume_unwind(Box::new(AbortExecution));
            }
            if g.state[t].is_lost() {
                // the watchdog wrote us off while we were still waking up: rejoin the pool
                g.state[t] = TState::Runnable;
                if g.current.is_none() {
                    g.current = Some(t);
                }
            }
            if g.current == Some(t) {
                return g;
            }
            g = self.cvs[t].wait(g).unwrap_or_else(|e| e.into_inner());
        }
    }

    fn hand_over(&self, g: &mut Inner, next: Option<usize>) {
        g.current = next;
        if let Some(nx) = next {
            self.cvs[nx].notify_one();
        }
    }

    fn set_abort(&self, g: &mut Inner, a: Abort) {
        if g.abort.is_none() {
            g.abort = Some(a);
        }
        for cv in &self.cvs {
            cv.notify_all();
        }
        self.done.notify_all();
    }

    fn sched_point(&self, t: usize, site: &'static str) {
        let mut g = self.lock();
        if g.abort.is_some() {
            drop(g);
            std::panic::resume_unwind(Box::new(AbortExecution));
        }
        if g.state[t].is_lost() {
            // we were presumed blocked on an untracked primitive; rejoin the pool
            g.state[t] = TState::Runnable;
            if g.current.is_none() {
                g.current = Some(t);
            }
            let g = self.wait_for_baton(g, t);
            drop(g);
            return;
        }
        g.progress += 1;
        g.stats.steps += 1;
        *g.stats.sites.entry(site).or_insert(0) += 1;
        g.digest.u64(t as u64).str(site);
        if g.stats.steps > g.step_bound {
            let s = g.stats.steps;
            self.set_abort(&mut g, Abort::StepBound(s));
            drop(g);
            std::panic::resume_unwind(Box::new(AbortExecution));
        }
        let next = g.choose(Some(t)).expect("the running task is runnable");
        if next != t {
            g.stats.switches += 1;
            if RENDER_SITES.contains(&site) {
                g.stats.switch_inside_render += 1;
            }
            self.hand_over(&mut g, Some(next));
            let g = self.wait_for_baton(g, t);
            drop(g);
        }
    }

    /// Called right before task `t` takes a real lock. Parks the task while the real lock is held
    /// by somebody else (who must be parked at a scheduling point inside its critical section).
    fn lock_wait(&self, t: usize, is_locked: &dyn Fn() -> bool, site: &'static str) {
        let _ = site;
        self.sched_point(t, "lock.acquire");
        if !is_locked() {
            // free, and we hold the baton: the caller's lock() succeeds without blocking
            return;
        }
        // erase the lifetime: the probe is only used while this frame is parked below
        let probe = Probe(unsafe { std::mem::transmute::<*const (dyn Fn() -> bool + '_), *const (dyn Fn() -> bool + 'static)>(is_locked as *const _) });
        let mut g = self.lock();
        loop {
            if g.abort.is_some() {
                g.state[t] = TState::Runnable;
                drop(g);
                std::panic::resume_unwind(Box::new(AbortExecution));
            }
            if !probe.locked() {
                g.state[t] = TState::Runnable;
                return;
            }
            g.state[t] = TState::Waiting(probe);
            g.stats.lock_blocked += 1;
            g.progress += 1;
            g.digest.u64(t as u64).str("lock.blocked");
            let waiters = g.state.iter().filter(|s| matches!(s, TState::Waiting(_))).count();
            if waiters > g.stats.max_waiters {
                g.stats.max_waiters = waiters;
            }
            match g.choose(None) {
                Some(nx) => {
                    g.stats.switches += 1;
                    self.hand_over(&mut g, Some(nx));
                }
                None => {
                    if g.state.iter().any(|s| s.is_lost()) {
                        // somebody is stuck outside our view; let the watchdog decide
                        self.hand_over(&mut g, None);
                    } else {
                        let desc = describe(&g.state);
                        g.state[t] = TState::Runnable;
                        self.set_abort(&mut g, Abort::Deadlock(desc));
                        drop(g);
                        std::panic::resume_unwind(Box::new(AbortExecution));
                    }
                }
            }
            // wait for the baton; on abort make sure the dangling probe is gone first
            loop {
                if g.abort.is_some() {
                    g.state[t] = TState::Runnable;
                    drop(g);
                    std::panic::resume_unwind(Box::new(AbortExecution));
                }
                if g.current == Some(t) {
                    break;
                }
                g = self.cvs[t].wait(g).unwrap_or_else(|e| e.into_inner());
            }
        }
    }

    fn task_start(&self, t: usize) {
        let mut g = self.lock();
        if g.state[t].is_lost() {
            // the watchdog gave up on us before our OS thread even got to run (an overloaded
            // machine): rejoin the pool like any other lost task that surfaces
            g.state[t] = TState::Runnable;
            if g.current.is_none() {
                g.current = Some(t);
            }
        }
        let g = self.wait_for_baton(g, t);
        drop(g);
    }

    fn task_finish(&self, t: usize) {
        let mut g = self.lock();
        let was_lost = g.state[t].is_lost();
        g.state[t] = TState::Finished;
        g.finished += 1;
        g.progress += 1;
        if g.finished == g.n {
            g.current = None;
            self.done.notify_all();
            return;
        }
        if g.abort.is_some() {
            self.done.notify_all();
            return;
        }
        if was_lost && g.current.is_some() && g.current != Some(t) {
            return;
        }
        match g.choose(None) {
            Some(nx) => self.hand_over(&mut g, Some(nx)),
            None => {
                if g.state.iter().any(|s| s.is_lost()) {
                    self.hand_over(&mut g, None);
                } else {
                    let desc = describe(&g.state);
                    self.set_abort(&mut g, Abort::Deadlock(desc));
                }
            }
        }
    }
}

pub struct ExecResult<R> {
    /// Per task: Ok(result) | Err(panic message). `None` if the task never completed (abort).
    pub results: Vec<Option<Result<R, String>>>,
    pub abort: Option<Abort>,
    pub trace: Vec<u8>,
    pub digest: u64,
    pub stats: SchedStats,
}

/// How long a task may go without reaching a scheduling point before it is presumed blocked
/// on a primitive the simulator does not own.
const LOST_AFTER: Duration = Duration::from_millis(5000);
const GIVE_UP_AFTER: Duration = Duration::from_millis(60000);

/// LOST_AFTER, overridable for stress-testing the watchdog itself (LIQUID_SIM_LOST_MS).
fn lost_after() -> Duration {
    static V: std::sync::OnceLock<Duration> = std::sync::OnceLock::new();
    *V.get_or_init(|| std::env::var("LIQUID_SIM_LOST_MS").ok().and_then(|s| s.parse::<u64>().ok()).map(Duration::from_millis).unwrap_or(LOST_AFTER))
}

/// Run `tasks` as one deterministic execution.
pub fn run_execution<R: Send + 'static>(
    tasks: Vec<Box<dyn FnOnce() -> R + Send + 'static>>,
    policy: Policy,
    seed: u64,
    step_bound: u64,
    hash_base: u64,
) -> ExecResult<R> {
    let n = tasks.len();
    let sched = Sched::new(n, policy, seed, step_bound);
    let slots: Arc<Mutex<Vec<Option<Result<R, String>>>>> = Arc::new(Mutex::new((0..n).map(|_| None).collect()));
    for (t, task) in tasks.into_iter().enumerate() {
        let sched = sched.clone();
        let slots = slots.clone();
        pool_dispatch(
            t,
            Box::new(move || {
                CUR.with(|c| *c.borrow_mut() = Some((sched.clone(), t)));
                set_hash_stream(Some(crate::prng::mix64(hash_base ^ ((t as u64 + 1) << 32))));
                let r = std::panic::catch_unwind(std::panic::AssertUnwindSafe(|| {
                    catch(|| {
                        sched.task_start(t);
                        task()
                    })
                }));
                CUR.with(|c| *c.borrow_mut() = None);
                set_hash_stream(None);
                if let Ok(res) = r {
                    slots.lock().unwrap_or_else(|e| e.into_inner())[t] = Some(res);
                }
                sched.task_finish(t);
            }),
        );
    }
    // start: give the baton to the first chosen task, then watch.
    {
        let mut g = sched.lock();
        let first = g.choose(None);
        sched.hand_over(&mut g, first);
    }
    let mut g = sched.lock();
    let mut last_progress = g.progress;
    let mut last_change = Instant::now();
    loop {
        if g.finished == g.n {
            break;
        }
        if g.abort.is_some() {
            // wait (bounded) for tasks to unwind; tasks stuck in the kernel are leaked
            let all_accounted = g.finished + g.state.iter().filter(|s| s.is_lost()).count() >= g.n;
            if all_accounted || last_change.elapsed() > LOST_AFTER {
                break;
            }
        }
        let (ng, _) = sched.done.wait_timeout(g, Duration::from_millis(50)).unwrap_or_else(|e| e.into_inner());
        g = ng;
        if g.progress != last_progress {
            last_progress = g.progress;
            last_change = Instant::now();
            continue;
        }
        if g.abort.is_some() {
            continue;
        }
        let idle = last_change.elapsed();
        if idle > lost_after() {
            if let Some(cur) = g.current {
                // the baton holder has not reached a scheduling point: presume it blocked
                g.state[cur] = TState::Lost;
                g.stats.lost_events += 1;
                let nx = g.choose(None);
                sched.hand_over(&mut g, nx);
                g.progress += 1;
                last_progress = g.progress;
                last_change = Instant::now();
            } else if idle > GIVE_UP_AFTER {
                let desc = format!("no task can make progress: {}", describe(&g.state));
                sched.set_abort(&mut g, Abort::Stalled(desc));
                last_change = Instant::now();
            }
        }
    }
    let abort = g.abort.clone();
    let trace = std::mem::take(&mut g.trace);
    let digest = g.digest.finish();
    let stats = g.stats.clone();
    drop(g);
    let results = std::mem::take(&mut *slots.lock().unwrap_or_else(|e| e.into_inner()));
    ExecResult { results, abort, trace, digest, stats }
}

// ---- per-worker pool of task threads ------------------------------------------------------------
//
// Spawning fresh OS threads for every execution makes the whole process contend on the kernel's
// address-space lock; each worker therefore keeps its task threads and hands them jobs.

type Job = Box<dyn FnOnce() + Send + 'static>;

struct PoolThread {
    tx: std::sync::mpsc::Sender<Job>,
    busy: Arc<std::sync::atomic::AtomicBool>,
}

thread_local! {
    static POOL: RefCell<Vec<PoolThread>> = const { RefCell::new(Vec::new()) };
}

fn spawn_pool_thread(slot: usize) -> PoolThread {
    let (tx, rx) = std::sync::mpsc::channel::<Job>();
    let busy = Arc::new(std::sync::atomic::AtomicBool::new(false));
    let b2 = busy.clone();
    std::thread::Builder::new()
        .name(format!("sim-task-{slot}"))
        .stack_size(8 << 20)
        .spawn(move || {
            while let Ok(job) = rx.recv() {
                job();
                b2.store(false, std::sync::atomic::Ordering::SeqCst);
            }
        })
        .expect("spawn sim task thread");
    PoolThread { tx, busy }
}

fn pool_dispatch(slot: usize, job: Job) {
    use std::sync::atomic::Ordering;
    POOL.with(|p| {
        let mut p = p.borrow_mut();
        while p.len() <= slot {
            let n = p.len();
            p.push(spawn_pool_thread(n));
        }
        if p[slot].busy.load(Ordering::SeqCst) {
            // still stuck in a previous execution (lost task): abandon it and start a new thread
            p[slot] = spawn_pool_thread(slot);
        }
        p[slot].busy.store(true, Ordering::SeqCst);
        if let Err(std::sync::mpsc::SendError(job)) = p[slot].tx.send(job) {
            p[slot] = spawn_pool_thread(slot);
            p[slot].busy.store(true, Ordering::SeqCst);
            let _ = p[slot].tx.send(job);
        }
    });
}

//! Plain, serialisable data values (`Dv`) and their conversion to liquid values.

use liquid::model::{Object, Value};
use serde::{Deserialize, Serialize};

#[derive(Clone, Debug, PartialEq, Serialize, Deserialize)]
pub enum Dv {
    Nil,
    Bool(bool),
    Int(i64),
    /// Stored as bits so NaN / -0.0 survive JSON.
    Float(u64),
    Str(String),
    Array(Vec<Dv>),
    /// Insertion-ordered key/value list.
    Object(Vec<(String, Dv)>),
}

impl Dv {
    pub fn float(f: f64) -> Dv {
        Dv::Float(f.to_bits())
    }
    pub fn str(s: &str) -> Dv {
        Dv::Str(s.to_string())
    }

    pub fn to_value(&self) -> Value {
        match self {
            Dv::Nil => Value::Nil,
            Dv::Bool(b) => Value::scalar(*b),
            Dv::Int(i) => Value::scalar(*i),
            Dv::Float(b) => Value::scalar(f64::from_bits(*b)),
            Dv::Str(s) => Value::scalar(s.clone()),
            Dv::Array(a) => Value::Array(a.iter().map(|d| d.to_value()).collect()),
            Dv::Object(o) => Value::Object(Self::entries_to_object(o)),
        }
    }

    pub fn entries_to_object(o: &[(String, Dv)]) -> Object {
        let mut obj = Object::new();
        for (k, v) in o {
            obj.insert(k.clone().into(), v.to_value());
        }
        obj
    }

    /// The value as a globals object (must be `Dv::Object`).
    pub fn to_object(&self) -> Object {
        match self {
            Dv::Object(o) => Self::entries_to_object(o),
            _ => Object::new(),
        }
    }

    /// Short human-readable form for samples.
    pub fn show(&self) -> String {
        match self {
            Dv::Nil => "nil".into(),
            Dv::Bool(b) => b.to_string(),
            Dv::Int(i) => i.to_string(),
            Dv::Float(b) => format!("{:?}", f64::from_bits(*b)),
            Dv::Str(s) => format!("{s:?}"),
            Dv::Array(a) => format!("[{}]", a.iter().map(|d| d.show()).collect::<Vec<_>>().join(", ")),
            Dv::Object(o) => format!(
                "{{{}}}",
                o.iter().map(|(k, v)| format!("{k}: {}", v.show())).collect::<Vec<_>>().join(", ")
            ),
        }
    }
}

/// Deep structural equality of two liquid values that does not depend on hash order and
/// treats NaN as equal to itself (used for "caller data untouched").
pub fn deep_eq(a: &Value, b: &Value) -> bool {
    match (a, b) {
        (Value::Nil, Value::Nil) => true,
        (Value::State(x), Value::State(y)) => x == y,
        (Value::Scalar(x), Value::Scalar(y)) => {
            format!("{:?}", x) == format!("{:?}", y)
        }
        (Value::Array(x), Value::Array(y)) => x.len() == y.len() && x.iter().zip(y.iter()).all(|(p, q)| deep_eq(p, q)),
        (Value::Object(x), Value::Object(y)) => {
            x.len() == y.len() && x.iter().all(|(k, v)| y.get(k.as_str()).map(|w| deep_eq(v, w)).unwrap_or(false))
        }
        _ => false,
    }
}

pub fn deep_eq_obj(a: &Object, b: &Object) -> bool {
    a.len() == b.len() && a.iter().all(|(k, v)| b.get(k.as_str()).map(|w| deep_eq(v, w)).unwrap_or(false))
}

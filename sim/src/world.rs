//! Building parsers over the simulated source and running renders with recorded outcomes.

use crate::seams::{FaultPlan, ProbeTag, SimSink, SimSource, SinkStats};
use liquid_core::partials::{EagerCompiler, LazyCompiler, OnDemandCompiler};
use serde::{Deserialize, Serialize};
use std::collections::BTreeMap;

#[derive(Clone, Copy, Debug, PartialEq, Eq, Serialize, Deserialize, PartialOrd, Ord, Hash)]
pub enum PolicyKind {
    Eager,
    Lazy,
    OnDemand,
}

pub const POLICIES: [PolicyKind; 3] = [PolicyKind::Eager, PolicyKind::Lazy, PolicyKind::OnDemand];

pub struct World {
    pub parser: liquid::Parser,
    pub source: SimSource,
    pub policy: PolicyKind,
}

/// Build a parser (stdlib + probe tag) with the given compilation policy over `map`.
pub fn build(policy: PolicyKind, map: &BTreeMap<String, String>, listing_rot: usize) -> Result<World, String> {
    let source = SimSource::new(map, listing_rot);
    let b = liquid::ParserBuilder::with_stdlib().tag(ProbeTag);
    let parser = match policy {
        PolicyKind::Eager => b.partials(EagerCompiler::new(source.clone())).build(),
        PolicyKind::Lazy => b.partials(LazyCompiler::new(source.clone())).build(),
        PolicyKind::OnDemand => b.partials(OnDemandCompiler::new(source.clone())).build(),
    }
    .map_err(|e| e.to_string())?;
    Ok(World { parser, source, policy })
}

/// Element crossings one render may make before it is cut off (a safety net against generated
/// workloads that are legal but take forever; such scenarios are discarded like baseline panics).
pub const RENDER_BUDGET: u64 = 3_000;

#[derive(Clone, Debug, PartialEq, Eq, Serialize, Deserialize)]
pub enum Outcome {
    Ok(Vec<u8>),
    Err { msg: String, accepted: Vec<u8> },
    Panic(String),
}

impl Outcome {
    pub fn is_ok(&self) -> bool {
        matches!(self, Outcome::Ok(_))
    }
    pub fn is_err(&self) -> bool {
        matches!(self, Outcome::Err { .. })
    }
    pub fn is_panic(&self) -> bool {
        matches!(self, Outcome::Panic(_))
    }
    /// The render was cut off by the harness's element budget (not a library panic).
    pub fn is_budget(&self) -> bool {
        matches!(self, Outcome::Panic(m) if m == crate::sched::BUDGET_MSG)
    }
    pub fn kind(&self) -> &'static str {
        match self {
            Outcome::Ok(_) => "ok",
            Outcome::Err { .. } => "err",
            Outcome::Panic(_) => "panic",
        }
    }
    pub fn bytes(&self) -> &[u8] {
        match self {
            Outcome::Ok(b) => b,
            Outcome::Err { accepted, .. } => accepted,
            Outcome::Panic(_) => &[],
        }
    }
    pub fn show(&self) -> String {
        match self {
            Outcome::Ok(b) => format!("Ok({:?})", String::from_utf8_lossy(b)),
            Outcome::Err { msg, accepted } => {
                // the whole message on one line: differences are often in the trace lines
                let m: Vec<&str> = msg.lines().map(|l| l.trim()).filter(|l| !l.is_empty()).collect();
                let mut m = m.join(" / ");
                if m.len() > 400 {
                    let mut cut = 400;
                    while !m.is_char_boundary(cut) {
                        cut -= 1;
                    }
                    m.truncate(cut);
                    m.push('…');
                }
                format!("Err({:?}; accepted {:?})", m, String::from_utf8_lossy(accepted))
            }
            Outcome::Panic(m) => format!("Panic({m:?})"),
        }
    }
    pub fn digest(&self, h: &mut crate::prng::Fnv) {
        match self {
            Outcome::Ok(b) => {
                h.u64(1).bytes(b);
            }
            Outcome::Err { msg, accepted } => {
                h.u64(2).str(msg).bytes(accepted);
            }
            Outcome::Panic(m) => {
                h.u64(3).str(m);
            }
        }
    }
}

/// `Template::render` (buffering).
pub fn render_buffered(t: &liquid::Template, globals: &dyn liquid::ObjectView) -> Outcome {
    crate::sched::arm_budget(Some(RENDER_BUDGET));
    let r = crate::sched::catch(|| t.render(globals));
    crate::sched::arm_budget(None);
    match r {
        Ok(Ok(s)) => Outcome::Ok(s.into_bytes()),
        Ok(Err(e)) => Outcome::Err { msg: e.to_string(), accepted: vec![] },
        Err(p) => Outcome::Panic(p),
    }
}

#[derive(Clone, Debug, Default)]
pub struct SinkReport {
    pub phys_calls: usize,
    pub logical_calls: usize,
    pub chunks: Vec<usize>,
    pub hard_returned: bool,
    pub calls_after_hard: usize,
    pub bytes_after_hard: usize,
    pub flushes: usize,
    pub flushes_after_hard: usize,
    pub calls_after_first_eintr: usize,
    pub stats: SinkStats,
}

/// `Template::render_to` into a simulated sink executing `plan`.
pub fn render_streamed(t: &liquid::Template, globals: &dyn liquid::ObjectView, plan: &FaultPlan) -> (Outcome, SinkReport) {
    let mut sink = SimSink::new(plan.clone());
    crate::sched::arm_budget(Some(RENDER_BUDGET));
    let r = crate::sched::catch(|| t.render_to(&mut sink, globals));
    crate::sched::arm_budget(None);
    let rep = SinkReport {
        phys_calls: sink.phys_calls,
        logical_calls: sink.logical,
        chunks: std::mem::take(&mut sink.chunks),
        hard_returned: sink.hard_returned,
        calls_after_hard: sink.calls_after_hard,
        bytes_after_hard: sink.bytes_after_hard,
        flushes: sink.flushes,
        flushes_after_hard: sink.flushes_after_hard,
        calls_after_first_eintr: sink.calls_after_first_eintr,
        stats: sink.stats.clone(),
    };
    let accepted = std::mem::take(&mut sink.accepted);
    let out = match r {
        Ok(Ok(())) => Outcome::Ok(accepted),
        Ok(Err(e)) => Outcome::Err { msg: e.to_string(), accepted },
        Err(p) => Outcome::Panic(p),
    };
    (out, rep)
}

/// Parse on the shared parser; Err(message) on a parse error, Err("panic: ..") on a panic.
pub fn parse(parser: &liquid::Parser, src: &str) -> Result<liquid::Template, String> {
    match crate::sched::catch(|| parser.parse(src)) {
        Ok(Ok(t)) => Ok(t),
        Ok(Err(e)) => Err(e.to_string()),
        Err(p) => Err(format!("panic: {p}")),
    }
}

//! One integer decides everything: SplitMix64 streams derived from VERIF_SEED.

#[derive(Clone, Debug)]
pub struct Rng {
    s: u64,
}

pub fn mix64(mut z: u64) -> u64 {
    z = z.wrapping_add(0x9E37_79B9_7F4A_7C15);
    z = (z ^ (z >> 30)).wrapping_mul(0xBF58_476D_1CE4_E5B9);
    z = (z ^ (z >> 27)).wrapping_mul(0x94D0_49BB_1331_11EB);
    z ^ (z >> 31)
}

/// Seed of run `index` of property `prop` under the master seed.
pub fn run_seed(master: u64, prop: &str, index: u64) -> u64 {
    let mut h = mix64(master ^ 0xA5A5_5A5A_1234_5678);
    for b in prop.bytes() {
        h = mix64(h ^ b as u64);
    }
    mix64(h ^ mix64(index))
}

impl Rng {
    pub fn new(seed: u64) -> Self {
        Rng { s: mix64(seed ^ 0x5851_F42D_4C95_7F2D) }
    }
    /// Independent sub-stream.
    pub fn fork(&mut self, tag: u64) -> Rng {
        let a = self.next_u64();
        Rng::new(a ^ mix64(tag))
    }
    pub fn next_u64(&mut self) -> u64 {
        self.s = self.s.wrapping_add(0x9E37_79B9_7F4A_7C15);
        let mut z = self.s;
        z = (z ^ (z >> 30)).wrapping_mul(0xBF58_476D_1CE4_E5B9);
        z = (z ^ (z >> 27)).wrapping_mul(0x94D0_49BB_1331_11EB);
        z ^ (z >> 31)
    }
    /// Uniform in 0..n (n > 0).
    pub fn below(&mut self, n: usize) -> usize {
        debug_assert!(n > 0);
        (self.next_u64() % n as u64) as usize
    }
    /// Uniform in lo..=hi.
    pub fn range(&mut self, lo: i64, hi: i64) -> i64 {
        debug_assert!(hi >= lo);
        lo + (self.next_u64() % ((hi - lo) as u64 + 1)) as i64
    }
    /// True with probability num/den.
    pub fn chance(&mut self, num: u32, den: u32) -> bool {
        (self.next_u64() % den as u64) < num as u64
    }
    pub fn pick<'a, T>(&mut self, xs: &'a [T]) -> &'a T {
        &xs[self.below(xs.len())]
    }
    pub fn shuffle<T>(&mut self, xs: &mut [T]) {
        for i in (1..xs.len()).rev() {
            let j = self.below(i + 1);
            xs.swap(i, j);
        }
    }
    /// Weighted choice; returns the index.
    pub fn weighted(&mut self, w: &[u32]) -> usize {
        let total: u64 = w.iter().map(|&x| x as u64).sum();
        debug_assert!(total > 0);
        let mut r = self.next_u64() % total;
        for (i, &x) in w.iter().enumerate() {
            if r < x as u64 {
                return i;
            }
            r -= x as u64;
        }
        w.len() - 1
    }
}

/// FNV-1a 64 for digests (stable across processes, unlike std's RandomState).
#[derive(Clone, Copy, Debug)]
pub struct Fnv(pub u64);

impl Default for Fnv {
    fn default() -> Self {
        Fnv(0xcbf2_9ce4_8422_2325)
    }
}

impl Fnv {
    pub fn new() -> Self {
        Self::default()
    }
    pub fn bytes(&mut self, b: &[u8]) -> &mut Self {
        for &x in b {
            self.0 ^= x as u64;
            self.0 = self.0.wrapping_mul(0x0000_0100_0000_01B3);
        }
        self
    }
    pub fn str(&mut self, s: &str) -> &mut Self {
        self.bytes(s.as_bytes()).bytes(&[0xff])
    }
    pub fn u64(&mut self, v: u64) -> &mut Self {
        self.bytes(&v.to_le_bytes())
    }
    pub fn finish(&self) -> u64 {
        mix64(self.0)
    }
}

pub fn hash_str(s: &str) -> u64 {
    Fnv::new().str(s).finish()
}

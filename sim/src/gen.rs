//! Workload generator: a small template AST printed to Liquid source, partial sets, data.

use crate::data::Dv;
use crate::prng::Rng;
use serde::{Deserialize, Serialize};
use std::collections::BTreeMap;

pub const NAMES: [&str; 5] = ["a", "b", "c", "d", "x"];

#[derive(Clone, Debug, PartialEq, Serialize, Deserialize)]
pub enum Expr {
    Nil,
    Bool(bool),
    Int(i64),
    Float(String),
    Str(String),
    Empty,
    Blank,
    /// Variable path, printed verbatim: `a`, `obj.k`, `arr[0]`, `arr.first`.
    Var(String),
}

impl Expr {
    pub fn print(&self) -> String {
        match self {
            Expr::Nil => "nil".into(),
            Expr::Bool(b) => b.to_string(),
            Expr::Int(i) => i.to_string(),
            Expr::Float(s) => s.clone(),
            Expr::Str(s) => {
                if s.contains('\'') {
                    format!("\"{s}\"")
                } else {
                    format!("'{s}'")
                }
            }
            Expr::Empty => "empty".into(),
            Expr::Blank => "blank".into(),
            Expr::Var(v) => v.clone(),
        }
    }
}

#[derive(Clone, Debug, PartialEq, Serialize, Deserialize)]
pub struct FilterCall {
    pub name: String,
    pub args: Vec<Expr>,
}

fn print_filters(fs: &[FilterCall]) -> String {
    let mut s = String::new();
    for f in fs {
        s.push_str(" | ");
        s.push_str(&f.name);
        if !f.args.is_empty() {
            s.push_str(": ");
            s.push_str(&f.args.iter().map(|a| a.print()).collect::<Vec<_>>().join(", "));
        }
    }
    s
}

#[derive(Clone, Debug, PartialEq, Serialize, Deserialize)]
pub enum Cond {
    Truthy(Expr),
    Cmp(Expr, String, Expr),
    And(Box<Cond>, Box<Cond>),
    Or(Box<Cond>, Box<Cond>),
}

impl Cond {
    pub fn print(&self) -> String {
        match self {
            Cond::Truthy(e) => e.print(),
            Cond::Cmp(a, op, b) => format!("{} {} {}", a.print(), op, b.print()),
            Cond::And(a, b) => format!("{} and {}", a.print(), b.print()),
            Cond::Or(a, b) => format!("{} or {}", a.print(), b.print()),
        }
    }
}

#[derive(Clone, Debug, PartialEq, Serialize, Deserialize)]
pub enum RangeE {
    Coll(Expr),
    Counted(Expr, Expr),
}

impl RangeE {
    pub fn print(&self) -> String {
        match self {
            RangeE::Coll(e) => e.print(),
            RangeE::Counted(a, b) => format!("({}..{})", a.print(), b.print()),
        }
    }
}

#[derive(Clone, Debug, PartialEq, Serialize, Deserialize)]
pub enum RenderMode {
    Plain,
    With(Expr, String),
    For(RangeE, String),
}

#[derive(Clone, Debug, PartialEq, Serialize, Deserialize)]
pub enum AbortKind {
    /// `{{ 1 | divided_by: zero }}` — errors when `zero` is 0 / missing.
    DivZero,
    /// `{{ undefined_name }}`
    Undefined,
    /// `{% include arr %}` — non-scalar partial name
    IncludeNonScalar,
    /// `{{ boom }}` — errors only under data that lacks `boom`
    DataDependent,
}

#[derive(Clone, Debug, PartialEq, Serialize, Deserialize)]
pub enum Node {
    Text(String),
    Output { expr: Expr, filters: Vec<FilterCall>, trim: u8 },
    Assign { name: String, expr: Expr, filters: Vec<FilterCall> },
    Capture { name: String, body: Vec<Node> },
    Incr(String),
    Decr(String),
    Cycle { group: Option<String>, values: Vec<Expr> },
    If { cond: Cond, then: Vec<Node>, elsifs: Vec<(Cond, Vec<Node>)>, else_: Option<Vec<Node>> },
    Unless { cond: Cond, body: Vec<Node>, else_: Option<Vec<Node>> },
    Case { expr: Expr, whens: Vec<(Vec<Expr>, Vec<Node>)>, else_: Option<Vec<Node>> },
    For { var: String, range: RangeE, limit: Option<Expr>, offset: Option<Expr>, reversed: bool, body: Vec<Node>, else_: Option<Vec<Node>> },
    TableRow { var: String, range: RangeE, cols: Option<Expr>, limit: Option<Expr>, offset: Option<Expr>, body: Vec<Node> },
    IfChanged(Vec<Node>),
    Raw(String),
    Comment(String),
    Break,
    Continue,
    Include { name: Expr, args: Vec<(String, Expr)> },
    Render { name: Expr, mode: RenderMode, args: Vec<(String, Expr)> },
    Probe(Expr),
    Abort(AbortKind),
    /// A fixed, syntactically valid source snippet (whitespace-control markers on tags and outputs).
    Snippet(String),
}

pub fn print_nodes(nodes: &[Node]) -> String {
    let mut s = String::new();
    for n in nodes {
        print_node(n, &mut s);
    }
    s
}

fn tag(s: &mut String, inner: &str) {
    s.push_str("{% ");
    s.push_str(inner);
    s.push_str(" %}");
}

fn print_node(n: &Node, s: &mut String) {
    match n {
        Node::Text(t) => s.push_str(t),
        Node::Output { expr, filters, trim } => {
            s.push_str(if trim & 1 != 0 { "{{- " } else { "{{ " });
            s.push_str(&expr.print());
            s.push_str(&print_filters(filters));
            s.push_str(if trim & 2 != 0 { " -}}" } else { " }}" });
        }
        Node::Assign { name, expr, filters } => tag(s, &format!("assign {name} = {}{}", expr.print(), print_filters(filters))),
        Node::Capture { name, body } => {
            tag(s, &format!("capture {name}"));
            s.push_str(&print_nodes(body));
            tag(s, "endcapture");
        }
        Node::Incr(name) => tag(s, &format!("increment {name}")),
        Node::Decr(name) => tag(s, &format!("decrement {name}")),
        Node::Cycle { group, values } => {
            let vals = values.iter().map(|v| v.print()).collect::<Vec<_>>().join(", ");
            match group {
                Some(g) => tag(s, &format!("cycle {g}: {vals}")),
                None => tag(s, &format!("cycle {vals}")),
            }
        }
        Node::If { cond, then, elsifs, else_ } => {
            tag(s, &format!("if {}", cond.print()));
            s.push_str(&print_nodes(then));
            for (c, b) in elsifs {
                tag(s, &format!("elsif {}", c.print()));
                s.push_str(&print_nodes(b));
            }
            if let Some(e) = else_ {
                tag(s, "else");
                s.push_str(&print_nodes(e));
            }
            tag(s, "endif");
        }
        Node::Unless { cond, body, else_ } => {
            tag(s, &format!("unless {}", cond.print()));
            s.push_str(&print_nodes(body));
            if let Some(e) = else_ {
                tag(s, "else");
                s.push_str(&print_nodes(e));
            }
            tag(s, "endunless");
        }
        Node::Case { expr, whens, else_ } => {
            tag(s, &format!("case {}", expr.print()));
            for (vals, b) in whens {
                let v = vals.iter().map(|v| v.print()).collect::<Vec<_>>().join(", ");
                tag(s, &format!("when {v}"));
                s.push_str(&print_nodes(b));
            }
            if let Some(e) = else_ {
                tag(s, "else");
                s.push_str(&print_nodes(e));
            }
            tag(s, "endcase");
        }
        Node::For { var, range, limit, offset, reversed, body, else_ } => {
            let mut h = format!("for {var} in {}", range.print());
            if let Some(l) = limit {
                h.push_str(&format!(" limit:{}", l.print()));
            }
            if let Some(o) = offset {
                h.push_str(&format!(" offset:{}", o.print()));
            }
            if *reversed {
                h.push_str(" reversed");
            }
            tag(s, &h);
            s.push_str(&print_nodes(body));
            if let Some(e) = else_ {
                tag(s, "else");
                s.push_str(&print_nodes(e));
            }
            tag(s, "endfor");
        }
        Node::TableRow { var, range, cols, limit, offset, body } => {
            let mut h = format!("tablerow {var} in {}", range.print());
            if let Some(c) = cols {
                h.push_str(&format!(" cols:{}", c.print()));
            }
            if let Some(l) = limit {
                h.push_str(&format!(" limit:{}", l.print()));
            }
            if let Some(o) = offset {
                h.push_str(&format!(" offset:{}", o.print()));
            }
            tag(s, &h);
            s.push_str(&print_nodes(body));
            tag(s, "endtablerow");
        }
        Node::IfChanged(body) => {
            tag(s, "ifchanged");
            s.push_str(&print_nodes(body));
            tag(s, "endifchanged");
        }
        Node::Raw(t) => {
            tag(s, "raw");
            s.push_str(t);
            tag(s, "endraw");
        }
        Node::Comment(t) => {
            tag(s, "comment");
            s.push_str(t);
            tag(s, "endcomment");
        }
        Node::Break => tag(s, "break"),
        Node::Continue => tag(s, "continue"),
        Node::Include { name, args } => {
            let mut h = format!("include {}", name.print());
            if !args.is_empty() {
                h.push(' ');
                h.push_str(&args.iter().map(|(k, v)| format!("{k}: {}", v.print())).collect::<Vec<_>>().join(", "));
            }
            tag(s, &h);
        }
        Node::Render { name, mode, args } => {
            let mut h = format!("render {}", name.print());
            match mode {
                RenderMode::Plain => {}
                RenderMode::With(e, as_) => h.push_str(&format!(" with {} as {as_}", e.print())),
                RenderMode::For(r, as_) => h.push_str(&format!(" for {} as {as_}", r.print())),
            }
            for (k, v) in args {
                h.push_str(&format!(", {k}: {}", v.print()));
            }
            tag(s, &h);
        }
        Node::Probe(e) => tag(s, &format!("probe {}", e.print())),
        Node::Snippet(t) => s.push_str(t),
        Node::Abort(k) => match k {
            AbortKind::DivZero => s.push_str("{{ 7 | divided_by: zero }}"),
            AbortKind::Undefined => s.push_str("{{ undefined_name }}"),
            AbortKind::IncludeNonScalar => tag(s, "include arr"),
            AbortKind::DataDependent => s.push_str("{{ boom }}"),
        },
    }
}

/// Bodies of a node, for generic traversal (shrinking, statistics).
pub fn bodies(n: &Node) -> Vec<&Vec<Node>> {
    match n {
        Node::Capture { body, .. } | Node::IfChanged(body) | Node::TableRow { body, .. } => vec![body],
        Node::If { then, elsifs, else_, .. } => {
            let mut v = vec![then];
            v.extend(elsifs.iter().map(|(_, b)| b));
            v.extend(else_.iter());
            v
        }
        Node::Unless { body, else_, .. } | Node::For { body, else_, .. } => {
            let mut v = vec![body];
            v.extend(else_.iter());
            v
        }
        Node::Case { whens, else_, .. } => {
            let mut v: Vec<&Vec<Node>> = whens.iter().map(|(_, b)| b).collect();
            v.extend(else_.iter());
            v
        }
        _ => vec![],
    }
}

fn bodies_mut(n: &mut Node) -> Vec<&mut Vec<Node>> {
    match n {
        Node::Capture { body, .. } | Node::IfChanged(body) | Node::TableRow { body, .. } => vec![body],
        Node::If { then, elsifs, else_, .. } => {
            let mut v = vec![then];
            v.extend(elsifs.iter_mut().map(|(_, b)| b));
            v.extend(else_.iter_mut());
            v
        }
        Node::Unless { body, else_, .. } | Node::For { body, else_, .. } => {
            let mut v = vec![body];
            v.extend(else_.iter_mut());
            v
        }
        Node::Case { whens, else_, .. } => {
            let mut v: Vec<&mut Vec<Node>> = whens.iter_mut().map(|(_, b)| b).collect();
            v.extend(else_.iter_mut());
            v
        }
        _ => vec![],
    }
}

pub fn count_nodes(nodes: &[Node]) -> usize {
    nodes.iter().map(|n| 1 + bodies(n).iter().map(|b| count_nodes(b)).sum::<usize>()).sum()
}

/// Names of constructs present (for reach statistics).
pub fn constructs(nodes: &[Node], out: &mut BTreeMap<&'static str, u64>) {
    for n in nodes {
        let k = match n {
            Node::Text(_) => "text",
            Node::Output { .. } => "output",
            Node::Assign { .. } => "assign",
            Node::Capture { .. } => "capture",
            Node::Incr(_) => "increment",
            Node::Decr(_) => "decrement",
            Node::Cycle { .. } => "cycle",
            Node::If { .. } => "if",
            Node::Unless { .. } => "unless",
            Node::Case { .. } => "case",
            Node::For { .. } => "for",
            Node::TableRow { .. } => "tablerow",
            Node::IfChanged(_) => "ifchanged",
            Node::Raw(_) => "raw",
            Node::Comment(_) => "comment",
            Node::Break => "break",
            Node::Continue => "continue",
            Node::Include { .. } => "include",
            Node::Render { .. } => "render",
            Node::Probe(_) => "probe",
            Node::Abort(_) => "abort",
            Node::Snippet(_) => "snippet",
        };
        *out.entry(k).or_insert(0) += 1;
        for b in bodies(n) {
            constructs(b, out);
        }
    }
}

/// All one-step reductions of a node list (delete a node, hoist a body, reduce inside a body).
pub fn shrink_candidates(nodes: &[Node]) -> Vec<Vec<Node>> {
    let mut out = Vec::new();
    // drop halves first for long lists
    if nodes.len() >= 4 {
        out.push(nodes[..nodes.len() / 2].to_vec());
        out.push(nodes[nodes.len() / 2..].to_vec());
    }
    for i in 0..nodes.len() {
        let mut v = nodes.to_vec();
        v.remove(i);
        out.push(v);
    }
    for i in 0..nodes.len() {
        for b in bodies(&nodes[i]) {
            let mut v = nodes[..i].to_vec();
            v.extend(b.iter().cloned());
            v.extend(nodes[i + 1..].iter().cloned());
            out.push(v);
        }
    }
    for i in 0..nodes.len() {
        let nb = bodies(&nodes[i]).len();
        for bi in 0..nb {
            let inner = bodies(&nodes[i])[bi].clone();
            for cand in shrink_candidates(&inner) {
                let mut v = nodes.to_vec();
                *bodies_mut(&mut v[i]).into_iter().nth(bi).unwrap() = cand;
                out.push(v);
            }
        }
        // simplify outputs: drop filters
        if let Node::Output { expr, filters, .. } = &nodes[i] {
            if !filters.is_empty() {
                let mut v = nodes.to_vec();
                v[i] = Node::Output { expr: expr.clone(), filters: vec![], trim: 0 };
                out.push(v);
            }
        }
    }
    out
}

// ---------------------------------------------------------------------------------------------
// Generation
// ---------------------------------------------------------------------------------------------

#[derive(Clone, Debug)]
pub struct GenCfg {
    /// weight per construct, in the order of `KINDS`
    pub w: Vec<u32>,
    pub max_depth: usize,
    pub max_nodes: usize,
    /// names of partials this template may invoke (already ordered acyclically)
    pub partials: Vec<String>,
    /// stored names of the callable partials (`x.liquid` is invoked as `x`)
    pub stored: Vec<String>,
    /// names that do not exist in the source (absent partials)
    pub absent: Vec<String>,
    pub allow_abort: bool,
    pub allow_probe: bool,
    pub trim_per_16: u32,
    pub filters_per_16: u32,
    /// `include pname` style invocations (main templates only: inside partials they could recurse)
    pub allow_dynamic_names: bool,
}

pub const KINDS: [&str; 22] = [
    "text", "output", "assign", "capture", "incr", "decr", "cycle", "if", "unless", "case", "for", "tablerow", "ifchanged", "raw",
    "comment", "break", "continue", "include", "render", "probe", "abort", "snippet",
];

const SNIPPETS: [&str; 8] = [
    "  {%- if true -%}  t  {%- endif -%}  ",
    "a {{- 'b' -}} c",
    "\n{%- comment -%} hidden {%- endcomment -%}\n",
    " {%- raw -%} {{ raw }} {%- endraw -%} ",
    "x\n\n  {%- increment a -%}\n\n  y",
    "{% if 1 == 1 or 2 == 3 and 'a' contains 'b' %}T{% else %}F{% endif %}",
    "{% case 2 %}{% when 1 or 2 %}two{% when 3, 4 %}three{% else %}other{% endcase %}",
    "{% cycle 1, 2, 3 %}{% cycle 1, 2, 3 %}",
];

impl GenCfg {
    /// Swarm configuration: a random subset of constructs with random weights.
    pub fn swarm(rng: &mut Rng, stateful_bias: bool) -> GenCfg {
        let mut w = vec![0u32; KINDS.len()];
        for (i, k) in KINDS.iter().enumerate() {
            let base = match *k {
                "text" => 10,
                "output" => 10,
                "cycle" | "incr" | "decr" | "ifchanged" | "capture" | "assign" => {
                    if stateful_bias {
                        8
                    } else {
                        4
                    }
                }
                "for" => 7,
                "if" => 5,
                "include" | "render" => 6,
                "break" | "continue" => 3,
                "tablerow" => 3,
                "probe" => 2,
                "abort" => 1,
                "snippet" => {
                    if stateful_bias {
                        6
                    } else {
                        2
                    }
                }
                _ => 2,
            };
            let on = matches!(*k, "text" | "output") || rng.chance(3, 4);
            w[i] = if on { base * (1 + rng.below(3) as u32) } else { 0 };
        }
        GenCfg {
            w,
            max_depth: 2 + rng.below(3),
            max_nodes: 6 + rng.below(26),
            partials: vec![],
            stored: vec![],
            absent: vec![],
            allow_abort: rng.chance(1, 3),
            allow_probe: true,
            trim_per_16: if rng.chance(1, 3) { 3 } else { 0 },
            filters_per_16: rng.below(6) as u32,
            allow_dynamic_names: true,
        }
    }
}

const TEXTS: [&str; 21] = [
    "hello ", "\n", " ", "é∑ü ", "{ ", " }", "%", "a}b", "<b>", "</b>", "x", "-", "1,2", "Ünï", "{ z", "tail\n",
    // long literals whose char boundaries fall on even / odd / multiple-of-3 / multiple-of-4 byte
    // offsets respectively: code that slices text at a fixed byte offset hits the inside of a
    // character in at least one of them
    "ÄäÖöÜüßÄäÖöÜüßÄäÖöÜüßÄäÖöÜüßÄäÖöÜüßÄäÖöÜüß",
    "xÄäÖöÜüßÄäÖöÜüßÄäÖöÜüßÄäÖöÜüßÄäÖöÜüßÄäÖöÜüß",
    "∑∑∑∑∑∑∑∑∑∑∑∑∑∑∑∑∑∑∑∑∑∑∑∑∑∑∑∑∑∑",
    "😀😀😀😀😀😀😀😀😀😀😀😀😀😀😀😀😀😀😀😀",
    "Lorem ipsum dolor sit amet, consectetur adipiscing elit, sed do eiusmod tempor incididunt ut labore.",
];

const STRS: [&str; 15] = ["it's", "", " ", "a", "b", "Abc def", "1", "2.5", "true", "é∑", "x,y,z", ",", ", ", "a ", "xÄäÖöÜüß∑😀ÄäÖöÜüß∑😀ÄäÖöÜüß∑😀"];

pub struct Gen<'a> {
    pub rng: &'a mut Rng,
    pub cfg: &'a GenCfg,
    budget: usize,
    /// > 0 while generating something whose value flows INTO a variable (capture body, assign
    /// right-hand side, partial arguments). There only names that are never assigned may be read:
    /// otherwise `{% capture x %}{{ x }}{{ x }}{% endcapture %}` in nested loops doubles a string per
    /// iteration and the library (legitimately) never comes back.
    restricted: usize,
}

/// Names that assign/capture may write (and that restricted code never reads).
pub const MUTABLE: [&str; 3] = ["c", "d", "x"];
/// Names that are never assigned.
pub const IMMUTABLE: [&str; 2] = ["a", "b"];

impl<'a> Gen<'a> {
    pub fn new(rng: &'a mut Rng, cfg: &'a GenCfg) -> Self {
        let budget = cfg.max_nodes;
        Gen { rng, cfg, budget, restricted: 0 }
    }

    pub fn template(&mut self) -> Vec<Node> {
        self.budget = self.cfg.max_nodes;
        let n = 1 + self.rng.below(6);
        self.block(0, n, false)
    }

    fn name(&mut self) -> String {
        if self.restricted > 0 {
            IMMUTABLE[self.rng.below(IMMUTABLE.len())].to_string()
        } else {
            NAMES[self.rng.below(NAMES.len())].to_string()
        }
    }

    fn target(&mut self) -> String {
        MUTABLE[self.rng.below(MUTABLE.len())].to_string()
    }

    fn lit(&mut self) -> Expr {
        match self.rng.below(10) {
            0 => Expr::Nil,
            1 => Expr::Bool(self.rng.chance(1, 2)),
            2..=4 => Expr::Int(self.rng.range(-2, 5)),
            5 => Expr::Float(["0.5", "1.0", "2.5", "-1.5"][self.rng.below(4)].to_string()),
            6 => {
                if self.rng.chance(1, 2) {
                    Expr::Empty
                } else {
                    Expr::Blank
                }
            }
            _ => Expr::Str(STRS[self.rng.below(STRS.len())].to_string()),
        }
    }

    fn var(&mut self) -> Expr {
        let v = match self.rng.below(20) {
            0 => "arr".to_string(),
            1 => "arr[0]".to_string(),
            2 => "arr.first".to_string(),
            3 => "obj.k".to_string(),
            4 => "obj".to_string(),
            5 => "arr.size".to_string(),
            6 => "s".to_string(),
            7 => "forloop.index".to_string(),
            8 => "arr.last".to_string(),
            9 => "arr[1]".to_string(),
            10 => "obj['k']".to_string(),
            11 => ["forloop.first", "forloop.last", "forloop.length", "forloop.rindex0", "forloop.index0"][self.rng.below(5)].to_string(),
            12 => ["tablerow.col", "tablerow.col_first", "tablerow.index"][self.rng.below(3)].to_string(),
            13 => "objs[0].k".to_string(),
            14 => "s.size".to_string(),
            _ => self.name(),
        };
        Expr::Var(v)
    }

    fn expr(&mut self) -> Expr {
        if self.rng.chance(3, 5) {
            self.var_safe()
        } else {
            self.lit()
        }
    }

    /// Variable that exists in every generated data object (so output does not abort).
    fn var_safe(&mut self) -> Expr {
        let v = match self.rng.below(16) {
            0 => "arr".to_string(),
            1 => "arr[0]".to_string(),
            2 => "arr.first".to_string(),
            3 => "obj.k".to_string(),
            4 => "obj".to_string(),
            5 => "s".to_string(),
            6 => "arr.last".to_string(),
            7 => "obj['k']".to_string(),
            8 => "objs[0].k".to_string(),
            9 => "objs".to_string(),
            10 => "when".to_string(),
            _ => self.name(),
        };
        Expr::Var(v)
    }

    fn scalar_expr(&mut self) -> Expr {
        match self.rng.below(4) {
            0 => Expr::Int(self.rng.range(0, 4)),
            1 => Expr::Str(STRS[self.rng.below(STRS.len())].to_string()),
            _ => Expr::Var(self.name()),
        }
    }

    fn filters(&mut self) -> Vec<FilterCall> {
        let mut v = vec![];
        while v.len() < 3 && self.rng.chance(self.cfg.filters_per_16, 16) {
            v.push(self.filter());
        }
        v
    }

    fn filter(&mut self) -> FilterCall {
        let f = |n: &str, a: Vec<Expr>| FilterCall { name: n.to_string(), args: a };
        match self.rng.below(48) {
            0 => f("upcase", vec![]),
            1 => f("downcase", vec![]),
            2 => f("capitalize", vec![]),
            3 => f("append", vec![self.scalar_expr()]),
            4 => f("prepend", vec![self.scalar_expr()]),
            5 => f("size", vec![]),
            6 => f("default", vec![self.scalar_expr()]),
            7 => f("strip", vec![]),
            8 => f("escape", vec![]),
            9 => f("join", vec![Expr::Str([",", ", ", " ", ""][self.rng.below(4)].into())]),
            10 => f("first", vec![]),
            11 => f("last", vec![]),
            12 => f("reverse", vec![]),
            13 => f("plus", vec![Expr::Int(self.rng.range(-3, 3))]),
            14 => f("minus", vec![Expr::Int(self.rng.range(-3, 3))]),
            15 => f("times", vec![Expr::Int(self.rng.range(-3, 3))]),
            16 => f("modulo", vec![Expr::Int(self.rng.range(1, 4))]),
            17 => f("abs", vec![]),
            18 => f("at_least", vec![Expr::Int(self.rng.range(-1, 3))]),
            19 => f("at_most", vec![Expr::Int(self.rng.range(-1, 3))]),
            20 => f("split", vec![Expr::Str([",", ", ", " "][self.rng.below(3)].into())]),
            21 => f("slice", vec![Expr::Int(self.rng.range(0, 2)), Expr::Int(self.rng.range(1, 3))]),
            22 => f("truncate", vec![Expr::Int(self.rng.range(4, 8))]),
            23 => f("replace", vec![Expr::Str("a".into()), Expr::Str("é".into())]),
            24 => f("remove", vec![Expr::Str("b".into())]),
            25 => f("url_encode", vec![]),
            26 => f("newline_to_br", vec![]),
            27 => f("sort", vec![]),
            28 => f("date", vec![Expr::Str(["%Y-%m-%d", "%d %b %Y", "%H:%M"][self.rng.below(3)].into())]),
            // the rest of the stdlib filter set (every filter a change might give a cache or a scratch buffer)
            29 => f("ceil", vec![]),
            30 => f("floor", vec![]),
            31 => f("round", vec![Expr::Int(self.rng.range(0, 2))]),
            32 => f("divided_by", vec![Expr::Int(self.rng.range(-2, 3))]),
            33 => f("lstrip", vec![]),
            34 => f("rstrip", vec![]),
            35 => f("strip_html", vec![]),
            36 => f("strip_newlines", vec![]),
            37 => f("truncatewords", vec![Expr::Int(self.rng.range(1, 3))]),
            38 => f("remove_first", vec![Expr::Str(["a", "b", " "][self.rng.below(3)].into())]),
            39 => f("replace_first", vec![Expr::Str(["a", ",", " "][self.rng.below(3)].into()), Expr::Str(["é", "", "--"][self.rng.below(3)].into())]),
            40 => f("escape_once", vec![]),
            41 => f("url_decode", vec![]),
            42 => f("map", vec![Expr::Str("k".into())]),
            43 => {
                if self.rng.chance(1, 2) {
                    f("where", vec![Expr::Str("k".into())])
                } else {
                    f("where", vec![Expr::Str("k".into()), self.scalar_expr()])
                }
            }
            44 => f("concat", vec![Expr::Var(["arr", "objs"][self.rng.below(2)].into())]),
            45 => f("uniq", vec![]),
            46 => f("sort_natural", vec![]),
            _ => f("compact", vec![]),
        }
    }

    fn cond(&mut self, depth: usize) -> Cond {
        match self.rng.below(if depth < 2 { 8 } else { 6 }) {
            0 | 1 => Cond::Truthy(self.expr()),
            2..=5 => {
                let op = ["==", "!=", "<", ">", "<=", ">=", "contains", "<>"][self.rng.below(8)];
                Cond::Cmp(self.expr(), op.to_string(), self.expr())
            }
            6 => Cond::And(Box::new(self.cond(depth + 1)), Box::new(self.cond(depth + 1))),
            _ => Cond::Or(Box::new(self.cond(depth + 1)), Box::new(self.cond(depth + 1))),
        }
    }

    fn range(&mut self) -> RangeE {
        match self.rng.below(10) {
            0..=3 => RangeE::Counted(Expr::Int(self.rng.range(0, 2)), Expr::Int(self.rng.range(1, 4))),
            // range bounds only from never-assigned names: a captured string such as "-106160616"
            // parses as an integer and `(x..2)` would then try to allocate 10^13 elements
            4 => RangeE::Counted(Expr::Var(IMMUTABLE[self.rng.below(IMMUTABLE.len())].to_string()), Expr::Int(self.rng.range(1, 4))),
            5..=8 => RangeE::Coll(Expr::Var("arr".into())),
            _ => RangeE::Coll(Expr::Var(self.name())),
        }
    }

    fn partial_name(&mut self) -> Option<Expr> {
        let np = self.cfg.partials.len();
        let na = self.cfg.absent.len();
        if np + na == 0 {
            return None;
        }
        // dynamic name through data (`pname` holds the name of partial 0 / `pn1` of partial 1)
        if self.cfg.allow_dynamic_names && self.rng.chance(1, 4) {
            return Some(Expr::Var(if self.rng.chance(1, 2) { "pname".into() } else { "pn1".into() }));
        }
        let use_absent = na > 0 && (np == 0 || self.rng.chance(1, 6));
        let n = if use_absent { &self.cfg.absent[self.rng.below(na)] } else { &self.cfg.partials[self.rng.below(np)] };
        Some(Expr::Str(n.clone()))
    }

    fn args(&mut self) -> Vec<(String, Expr)> {
        self.restricted += 1;
        let v = self.args_inner();
        self.restricted -= 1;
        v
    }

    fn args_inner(&mut self) -> Vec<(String, Expr)> {
        let mut v = vec![];
        while v.len() < 2 && self.rng.chance(1, 3) {
            let k = self.name();
            if v.iter().any(|(kk, _)| *kk == k) {
                break;
            }
            v.push((k, self.expr_arg()));
        }
        v
    }

    /// Argument values must be evaluable (try_evaluate failing is an error): mostly safe ones.
    fn expr_arg(&mut self) -> Expr {
        if self.rng.chance(1, 2) {
            self.var_safe()
        } else {
            self.lit()
        }
    }

    fn block(&mut self, depth: usize, n: usize, in_loop: bool) -> Vec<Node> {
        let mut v = Vec::new();
        for _ in 0..n {
            if self.budget == 0 {
                break;
            }
            self.budget -= 1;
            v.push(self.node(depth, in_loop));
        }
        v
    }

    fn sub(&mut self, depth: usize, in_loop: bool) -> Vec<Node> {
        let n = 1 + self.rng.below(3);
        self.block(depth + 1, n, in_loop)
    }

    fn node(&mut self, depth: usize, in_loop: bool) -> Node {
        let deep = depth >= self.cfg.max_depth;
        let mut w = self.cfg.w.clone();
        for (i, k) in KINDS.iter().enumerate() {
            let blocky = matches!(*k, "capture" | "if" | "unless" | "case" | "for" | "tablerow" | "ifchanged");
            if deep && blocky {
                w[i] = 0;
            }
            if !in_loop && matches!(*k, "break" | "continue") {
                // allowed outside loops too (it interrupts the template), but rarely
                w[i] /= 4;
            }
            if *k == "abort" && !self.cfg.allow_abort {
                w[i] = 0;
            }
            if *k == "probe" && !self.cfg.allow_probe {
                w[i] = 0;
            }
            if matches!(*k, "include" | "render" | "probe") && self.cfg.partials.is_empty() && self.cfg.absent.is_empty() {
                w[i] = 0;
            }
            if self.restricted > 0 && matches!(*k, "include" | "render" | "assign" | "capture") {
                // a partial (or a nested assignment) could read what is being written
                w[i] = 0;
            }
        }
        if w.iter().all(|&x| x == 0) {
            w[0] = 1;
        }
        let k = KINDS[self.rng.weighted(&w)];
        match k {
            "text" => Node::Text(TEXTS[self.rng.below(TEXTS.len())].to_string()),
            "output" => {
                let trim = if self.rng.chance(self.cfg.trim_per_16, 16) { 1 + self.rng.below(3) as u8 } else { 0 };
                Node::Output { expr: self.expr_out(), filters: self.filters(), trim }
            }
            "assign" => {
                let name = self.target();
                self.restricted += 1;
                let expr = self.expr_arg();
                let filters = self.filters();
                self.restricted -= 1;
                Node::Assign { name, expr, filters }
            }
            "capture" => {
                let name = self.target();
                self.restricted += 1;
                let body = self.sub(depth, in_loop);
                self.restricted -= 1;
                Node::Capture { name, body }
            }
            "incr" => Node::Incr(self.name()),
            "decr" => Node::Decr(self.name()),
            "cycle" => {
                let group = match self.rng.below(4) {
                    0 => Some(self.name()),
                    1 => Some("'g'".to_string()),
                    _ => None,
                };
                let n = 1 + self.rng.below(3);
                let values = (0..n)
                    .map(|i| if self.rng.chance(1, 4) { Expr::Var(self.name()) } else { Expr::Str(["one", "two", "three"][i].to_string()) })
                    .collect();
                Node::Cycle { group, values }
            }
            "if" => {
                let cond = self.cond(0);
                let then = self.sub(depth, in_loop);
                let mut elsifs = vec![];
                if self.rng.chance(1, 4) {
                    elsifs.push((self.cond(1), self.sub(depth, in_loop)));
                }
                let else_ = if self.rng.chance(1, 2) { Some(self.sub(depth, in_loop)) } else { None };
                Node::If { cond, then, elsifs, else_ }
            }
            "unless" => {
                let cond = self.cond(0);
                let body = self.sub(depth, in_loop);
                let else_ = if self.rng.chance(1, 3) { Some(self.sub(depth, in_loop)) } else { None };
                Node::Unless { cond, body, else_ }
            }
            "case" => {
                let expr = self.expr();
                let nw = 1 + self.rng.below(2);
                let mut whens = vec![];
                for _ in 0..nw {
                    let nv = 1 + self.rng.below(2);
                    let vals = (0..nv).map(|_| self.lit_or_var()).collect();
                    whens.push((vals, self.sub(depth, in_loop)));
                }
                let else_ = if self.rng.chance(1, 2) { Some(self.sub(depth, in_loop)) } else { None };
                Node::Case { expr, whens, else_ }
            }
            "for" => {
                let var = self.name();
                let range = self.range();
                let limit = if self.rng.chance(1, 4) { Some(Expr::Int(self.rng.range(0, 3))) } else { None };
                let offset = if self.rng.chance(1, 5) { Some(Expr::Int(self.rng.range(0, 2))) } else { None };
                let reversed = self.rng.chance(1, 5);
                let body = self.sub(depth, true);
                let else_ = if self.rng.chance(1, 4) { Some(self.sub(depth, in_loop)) } else { None };
                Node::For { var, range, limit, offset, reversed, body, else_ }
            }
            "tablerow" => {
                let var = self.name();
                let range = match self.rng.below(3) {
                    0 => RangeE::Coll(Expr::Var("arr".into())),
                    _ => RangeE::Counted(Expr::Int(1), Expr::Int(self.rng.range(1, 4))),
                };
                let cols = if self.rng.chance(2, 3) { Some(Expr::Int(self.rng.range(1, 3))) } else { None };
                let limit = if self.rng.chance(1, 5) { Some(Expr::Int(self.rng.range(1, 3))) } else { None };
                let offset = if self.rng.chance(1, 6) { Some(Expr::Int(self.rng.range(0, 1))) } else { None };
                Node::TableRow { var, range, cols, limit, offset, body: self.sub(depth, false) }
            }
            "ifchanged" => Node::IfChanged(self.sub(depth, in_loop)),
            "raw" => Node::Raw(["{{ a }}", "{% if %}", "plain", "é{ "][self.rng.below(4)].to_string()),
            "comment" => Node::Comment(["note", "{{ a }}", "{% increment a %}"][self.rng.below(3)].to_string()),
            "break" => Node::Break,
            "continue" => Node::Continue,
            "include" => match self.partial_name() {
                Some(name) => {
                    // `include` has no `.liquid` fallback: name the stored partial in full, mostly
                    let only_dotted = self.cfg.stored.iter().any(|n| n == "x.liquid") && !self.cfg.stored.iter().any(|n| n == "x");
                    let name = if only_dotted && name == Expr::Str("x".into()) && self.rng.chance(2, 3) { Expr::Str("x.liquid".into()) } else { name };
                    Node::Include { name, args: self.args() }
                }
                None => Node::Text("i".into()),
            },
            "render" => match self.partial_name() {
                Some(name) => {
                    self.restricted += 1;
                    let mode = match self.rng.below(5) {
                        0 => RenderMode::With(self.expr_arg(), self.name()),
                        1 => RenderMode::For(self.range_safe(), self.name()),
                        _ => RenderMode::Plain,
                    };
                    self.restricted -= 1;
                    let mut args = self.args();
                    if self.rng.chance(3, 4) {
                        for n in IMMUTABLE.iter().chain(["arr", "obj", "objs", "s", "zero", "when"].iter()) {
                            if !args.iter().any(|(k, _)| k == n) {
                                args.push((n.to_string(), Expr::Var(n.to_string())));
                            }
                        }
                    }
                    Node::Render { name, mode, args }
                }
                None => Node::Text("r".into()),
            },
            "probe" => match self.partial_name() {
                Some(name) => Node::Probe(name),
                None => Node::Text("p".into()),
            },
            "snippet" => {
                if self.rng.chance(2, 3) {
                    Node::Snippet(self.idiom())
                } else {
                    Node::Snippet(SNIPPETS[self.rng.below(SNIPPETS.len())].to_string())
                }
            }
            "abort" => Node::Abort(match self.rng.below(4) {
                0 => AbortKind::DivZero,
                1 => AbortKind::Undefined,
                2 => AbortKind::IncludeNonScalar,
                _ => AbortKind::DataDependent,
            }),
            _ => unreachable!(),
        }
    }

    /// State-sensitive shapes that random composition rarely produces: a stateful tag (ifchanged,
    /// cycle, increment, capture) inside a loop but behind a guard that is false for the first
    /// items, after a `continue`, before a `break`, or under a data-dependent condition.
    fn idiom(&mut self) -> String {
        let n = 2 + self.rng.below(3); // loop length 2..4
        let k = self.rng.below(n); // guard threshold
        let v = ["i", "j", "v"][self.rng.below(3)];
        let imm = IMMUTABLE[self.rng.below(IMMUTABLE.len())];
        let body = match self.rng.below(5) {
            0 => "x".to_string(),
            1 => format!("{{{{ {v} | modulo: 2 }}}}"),
            2 => format!("{{{{ {imm} }}}}"),
            3 => format!("[{{{{ {v} }}}}]"),
            _ => "{{ s }}".to_string(),
        };
        let src = if self.rng.chance(1, 2) { format!("(1..{n})") } else { "arr".to_string() };
        let stateful = match self.rng.below(6) {
            0 | 1 => format!("{{% ifchanged %}}{body}{{% endifchanged %}}"),
            2 => "{% cycle 'p', 'q', 'r' %}".to_string(),
            3 => format!("{{% cycle {imm}: 'p', 'q' %}}"),
            4 => "{% increment c %}".to_string(),
            _ => format!("{{% capture d %}}{body}{{% endcapture %}}{{{{ d }}}}"),
        };
        if self.rng.chance(1, 10) {
            return "{{ when | date: '%Y-%m-%d' }}".to_string();
        }
        if self.rng.chance(1, 24) {
            let d = 6 + self.rng.below(35);
            return deep_source(self.rng, d);
        }
        if self.rng.chance(1, 6) {
            // a value computed from DATA through a filter argument on a literal entry, stored and
            // printed: looks constant to a careless optimiser, is not
            let lit = ["'x'", "2.5", "7", "'Abc def'"][self.rng.below(4)];
            let f = ["append", "prepend", "plus", "times", "default"][self.rng.below(5)];
            return format!("{{% assign c = {lit} | {f}: {imm} %}}[{{{{ c }}}}]");
        }
        match self.rng.below(7) {
            // guarded by the loop position: not reached in the first iteration(s)
            0 | 1 => format!("{{% for {v} in {src} %}}{{% if forloop.index > {k} %}}{stateful}{{% endif %}}{{% endfor %}}"),
            // after a continue
            2 => format!("{{% for {v} in {src} %}}{{% if forloop.index <= {k} %}}{{% continue %}}{{% endif %}}{stateful}{{% endfor %}}"),
            // before a break
            3 => format!("{{% for {v} in {src} %}}{stateful}{{% if forloop.index > {k} %}}{{% break %}}{{% endif %}}{{% endfor %}}{stateful}"),
            // under a data-dependent condition (a and b are small integers half the time)
            4 => format!("{{% for {v} in {src} %}}{{% if {imm} > {k} %}}{stateful}{{% else %}}-{{% endif %}}{{% endfor %}}"),
            // nested loops sharing the stateful tag
            5 => format!("{{% for {v} in {src} %}}{{% for w in (1..2) %}}{{% if {v} != 1 %}}{stateful}{{% endif %}}{{% endfor %}}{{% endfor %}}"),
            // tablerow with a break inside a cell, then the stateful tag again
            _ => format!("{{% tablerow {v} in (1..{n}) cols:2 %}}{stateful}{{% if {v} == {k} %}}{{% break %}}{{% endif %}}{{% endtablerow %}}{stateful}"),
        }
    }

    fn range_safe(&mut self) -> RangeE {
        if self.rng.chance(1, 2) {
            RangeE::Coll(Expr::Var("arr".into()))
        } else {
            RangeE::Counted(Expr::Int(1), Expr::Int(self.rng.range(1, 3)))
        }
    }

    fn lit_or_var(&mut self) -> Expr {
        if self.rng.chance(1, 4) {
            Expr::Var(self.name())
        } else {
            match self.rng.below(3) {
                0 => Expr::Int(self.rng.range(0, 3)),
                1 => Expr::Str(STRS[self.rng.below(STRS.len())].to_string()),
                _ => self.lit(),
            }
        }
    }

    /// Expression for an output tag: mostly defined variables; `forloop.index` sometimes.
    fn expr_out(&mut self) -> Expr {
        match self.rng.below(12) {
            0 => self.lit(),
            1 => self.var(),
            _ => self.var_safe(),
        }
    }
}

// ---------------------------------------------------------------------------------------------
// Data
// ---------------------------------------------------------------------------------------------

fn scalar_dv(rng: &mut Rng) -> Dv {
    match rng.below(12) {
        0 => Dv::Nil,
        1 => Dv::Bool(rng.chance(1, 2)),
        2..=5 => Dv::Int(rng.range(-2, 6)),
        6 => Dv::float([0.5, 1.0, 2.5, -1.5][rng.below(4)]),
        _ => Dv::str(STRS[rng.below(STRS.len())]),
    }
}

fn value_dv(rng: &mut Rng, depth: usize) -> Dv {
    match rng.below(if depth == 0 { 10 } else { 7 }) {
        7 | 8 => Dv::Array((0..rng.below(5)).map(|_| value_dv(rng, depth + 1)).collect()),
        9 => Dv::Object(vec![("k".into(), scalar_dv(rng))]),
        _ => scalar_dv(rng),
    }
}

/// A globals object. All of `NAMES`, `arr`, `obj`, `s`, `zero`, `pname`, `pn1` are defined unless
/// `holes` asks for some to be left out (those become data-dependent abort points).
pub fn gen_data(rng: &mut Rng, partial_names: &[String], holes: bool) -> Dv {
    let mut o: Vec<(String, Dv)> = Vec::new();
    for n in NAMES {
        if holes && rng.chance(1, 8) {
            continue;
        }
        // `a` and `b` (never assigned) serve as range bounds and limits: small integers half the time
        if IMMUTABLE.contains(&n) && rng.chance(1, 2) {
            o.push((n.to_string(), Dv::Int(rng.range(0, 3))));
        } else {
            o.push((n.to_string(), value_dv(rng, 0)));
        }
    }
    o.push(("arr".into(), Dv::Array((0..1 + rng.below(4)).map(|_| scalar_dv(rng)).collect())));
    o.push(("obj".into(), Dv::Object(vec![("k".into(), scalar_dv(rng))])));
    o.push(("objs".into(), Dv::Array((0..1 + rng.below(3)).map(|_| Dv::Object(vec![("k".into(), scalar_dv(rng))])).collect())));
    o.push(("s".into(), Dv::str(STRS[rng.below(STRS.len())])));
    // a date in several spellings (only some of which the date parser accepts): never "now"/"today"
    o.push(("when".into(), Dv::str(["13 Jun 2016 02:30:00 +0300", "13 jun 2016 02:30:00 +0300", " 13 Jun 2016 02:30:00 +0300", "2016-06-13 02:30:00 +0300", "2016-06-13"][rng.below(5)])));
    o.push(("zero".into(), if rng.chance(1, 2) { Dv::Int(0) } else { Dv::Int(1 + rng.below(3) as i64) }));
    if !holes || rng.chance(1, 2) {
        o.push(("boom".into(), Dv::str("ok")));
    }
    let pn = |rng: &mut Rng| {
        if partial_names.is_empty() {
            Dv::str("nopartial")
        } else if rng.chance(1, 10) {
            Dv::str("gone")
        } else {
            // the stored name, or the name a template would use (`x` for `x.liquid`)
            let n = &partial_names[rng.below(partial_names.len())];
            if rng.chance(1, 2) {
                Dv::str(&invocation_name(n))
            } else {
                Dv::str(n)
            }
        }
    };
    o.push(("pname".into(), pn(rng)));
    o.push(("pn1".into(), pn(rng)));
    rng.shuffle(&mut o);
    Dv::Object(o)
}

// ---------------------------------------------------------------------------------------------
// Partial sets
// ---------------------------------------------------------------------------------------------

#[derive(Clone, Debug, PartialEq, Serialize, Deserialize)]
pub enum PartialBody {
    Valid(Vec<Node>),
    Corrupt(String),
}

#[derive(Clone, Debug, PartialEq, Serialize, Deserialize)]
pub struct PartialDef {
    pub name: String,
    pub body: PartialBody,
}

impl PartialDef {
    pub fn source(&self) -> String {
        match &self.body {
            PartialBody::Valid(n) => print_nodes(n),
            PartialBody::Corrupt(s) => s.clone(),
        }
    }
    pub fn is_corrupt(&self) -> bool {
        matches!(self.body, PartialBody::Corrupt(_))
    }
}

/// Texts that fail to parse (with an error, not a panic) under the stdlib language.
pub const CORRUPT: [&str; 8] = [
    "{% if %}x{% endif %}",
    "{{ | }}",
    "before {% endfor %}",
    "{% for %}{% endfor %}",
    "{{ a | nosuchfilter }}",
    "{% nosuchtag %}",
    "{% if a %}unclosed",
    "ok so far {{ a | upcase: }}",
];

#[derive(Clone, Debug, PartialEq, Serialize, Deserialize)]
pub struct PartialSet {
    pub defs: Vec<PartialDef>,
    /// Names that templates may mention but the source does not hold.
    pub absent: Vec<String>,
}

impl PartialSet {
    pub fn map(&self) -> BTreeMap<String, String> {
        self.defs.iter().map(|d| (d.name.clone(), d.source())).collect()
    }
    pub fn names(&self) -> Vec<String> {
        self.defs.iter().map(|d| d.name.clone()).collect()
    }
}

/// 0..=4 partials; partial i may only invoke partials with a larger index (acyclic).
pub fn gen_partials(rng: &mut Rng, base: &GenCfg, corrupt_per_8: u32, absent_per_8: u32, max: usize) -> PartialSet {
    let n = rng.below(max + 1);
    let mut names: Vec<String> = (0..n).map(|i| format!("p{i}")).collect();
    // one partial stored as `x.liquid` and invoked as `x` (render's fallback lookup)
    let mut fallback = None;
    if n > 0 && rng.chance(1, 2) {
        let i = rng.below(n);
        names[i] = "x.liquid".to_string();
        fallback = Some(i);
        // sometimes both spellings exist, with different content
        // (only at a LARGER index: every use of the name `x` then resolves to a later partial and the
        // include graph stays acyclic)
        if i + 1 < n && rng.chance(1, 4) {
            let j = i + 1 + rng.below(n - i - 1);
            names[j] = "x".to_string();
        }
    }
    // names the stores must match verbatim: a directory-like name with `/` or with `\`
    if n > 0 && rng.chance(1, 3) {
        // (several at once, in mixed case: stores that order or normalise names must still match
        // them verbatim)
        let specials = ["d/p", "d\\p", "My Partial", "p-1", "dir/sub/p.html", "Footer", "Zeta", "alpha", "body"];
        let how_many = 1 + rng.below(3.min(n));
        for _ in 0..how_many {
            let i = rng.below(n);
            let cand = specials[rng.below(specials.len())].to_string();
            if !names[i].starts_with('x') && !names.contains(&cand) {
                names[i] = cand;
            }
        }
    }
    let mut absent = vec![];
    if rng.chance(absent_per_8, 8) {
        absent.push("gone".to_string());
    }
    let mut defs: Vec<PartialDef> = Vec::new();
    for i in (0..n).rev() {
        // a plain `x` next to `x.liquid` must be valid: `render 'x'` falls back to `x.liquid` on ANY
        // error of `x`, so a corrupt `x` would make `x.liquid` (which may render `x`) call itself
        let body = if names[i] != "x" && rng.chance(corrupt_per_8, 8) {
            PartialBody::Corrupt(CORRUPT[rng.below(CORRUPT.len())].to_string())
        } else {
            let mut cfg = base.clone();
            cfg.max_nodes = 2 + rng.below(8);
            cfg.max_depth = cfg.max_depth.min(2);
            cfg.allow_dynamic_names = false;
            // callable: later partials (already generated), by invocation name
            cfg.partials = defs.iter().map(|d: &PartialDef| invocation_name(&d.name)).collect();
            cfg.stored = defs.iter().map(|d: &PartialDef| d.name.clone()).collect();
            cfg.absent = if rng.chance(1, 6) { absent.clone() } else { vec![] };
            let mut g = Gen::new(rng, &cfg);
            PartialBody::Valid(g.template())
        };
        defs.push(PartialDef { name: names[i].clone(), body });
    }
    defs.reverse();
    let _ = fallback;
    PartialSet { defs, absent }
}

/// How a template names the partial: `x.liquid` is invoked as `x` or by its full name.
pub fn invocation_name(stored: &str) -> String {
    stored.strip_suffix(".liquid").unwrap_or(stored).to_string()
}

/// Insert a data-dependent abort node into a randomly chosen (preferably nested) body, after at
/// least one other node, so that a render fails *midway*: inside a loop, a capture, an ifchanged
/// block, a conditional branch — wherever the dice land.
pub fn inject_abort(nodes: &mut Vec<Node>, rng: &mut Rng) -> bool {
    // collect the number of bodies reachable (pre-order), pick one, then walk again to mutate
    fn count(nodes: &[Node]) -> usize {
        1 + nodes.iter().map(|n| bodies(n).iter().map(|b| count(b)).sum::<usize>()).sum::<usize>()
    }
    fn walk(nodes: &mut Vec<Node>, target: &mut usize, rng: &mut Rng) -> bool {
        if *target == 0 {
            let kind = if rng.chance(1, 2) { AbortKind::DataDependent } else { AbortKind::DivZero };
            let at = if nodes.is_empty() { 0 } else { 1 + rng.below(nodes.len()) };
            nodes.insert(at, Node::Abort(kind));
            return true;
        }
        *target -= 1;
        for n in nodes.iter_mut() {
            for b in bodies_mut(n) {
                if walk(b, target, rng) {
                    return true;
                }
            }
        }
        false
    }
    let total = count(nodes);
    // prefer nested bodies: index 0 is the top level
    let mut target = if total > 1 && rng.chance(4, 5) { 1 + rng.below(total - 1) } else { 0 };
    walk(nodes, &mut target, rng)
}

/// Like `inject_abort`, but aimed at the body of a `capture` block (after at least one node that
/// writes into the capture buffer), if the template has one. Returns false otherwise.
pub fn inject_abort_in_capture(nodes: &mut Vec<Node>, rng: &mut Rng) -> bool {
    fn walk(nodes: &mut Vec<Node>, rng: &mut Rng) -> bool {
        for n in nodes.iter_mut() {
            if let Node::Capture { body, .. } = n {
                if !body.is_empty() && rng.chance(2, 3) {
                    let kind = if rng.chance(1, 2) { AbortKind::DataDependent } else { AbortKind::DivZero };
                    let at = 1 + rng.below(body.len());
                    body.insert(at, Node::Abort(kind));
                    return true;
                }
            }
            for b in bodies_mut(n) {
                if walk(b, rng) {
                    return true;
                }
            }
        }
        false
    }
    walk(nodes, rng)
}

fn cond_exprs_mut<'a>(c: &'a mut Cond, out: &mut Vec<&'a mut Expr>) {
    match c {
        Cond::Truthy(e) => out.push(e),
        Cond::Cmp(a, _, b) => {
            out.push(a);
            out.push(b);
        }
        Cond::And(a, b) | Cond::Or(a, b) => {
            cond_exprs_mut(a, out);
            cond_exprs_mut(b, out);
        }
    }
}

fn exprs_mut<'a>(nodes: &'a mut [Node], out: &mut Vec<&'a mut Expr>) {
    for n in nodes.iter_mut() {
        match n {
            Node::Output { expr, filters, .. } | Node::Assign { expr, filters, .. } => {
                out.push(expr);
                for f in filters.iter_mut() {
                    out.extend(f.args.iter_mut());
                }
            }
            Node::Cycle { values, .. } => out.extend(values.iter_mut()),
            Node::Capture { body, .. } | Node::IfChanged(body) | Node::TableRow { body, .. } => exprs_mut(body, out),
            Node::If { cond, then, elsifs, else_ } => {
                cond_exprs_mut(cond, out);
                exprs_mut(then, out);
                for (c, b) in elsifs.iter_mut() {
                    cond_exprs_mut(c, out);
                    exprs_mut(b, out);
                }
                if let Some(e) = else_ {
                    exprs_mut(e, out);
                }
            }
            Node::Unless { cond, body, else_ } => {
                cond_exprs_mut(cond, out);
                exprs_mut(body, out);
                if let Some(e) = else_ {
                    exprs_mut(e, out);
                }
            }
            Node::Case { expr, whens, else_ } => {
                out.push(expr);
                for (vals, b) in whens.iter_mut() {
                    out.extend(vals.iter_mut());
                    exprs_mut(b, out);
                }
                if let Some(e) = else_ {
                    exprs_mut(e, out);
                }
            }
            Node::For { body, else_, .. } => {
                exprs_mut(body, out);
                if let Some(e) = else_ {
                    exprs_mut(e, out);
                }
            }
            _ => {}
        }
    }
}

/// A near-duplicate of a template: the same structure with ONE literal changed minimally (a string
/// gaining/losing a blank, another string of the pool, an integer +1) or one text node changed.
/// Near-duplicates parsed on one parser defeat caches keyed too coarsely (length, prefix, source
/// with blanks stripped ...).
/// A template nested `depth` blocks deep (mixed block kinds) around a small body. Recursion depth is
/// a resource a change may start to *count* (a "nesting too deep" guard, a depth-indexed scratch
/// stack): if the count lives anywhere shared, only deep templates in flight together reach its limit.
pub fn deep_source(rng: &mut Rng, depth: usize) -> String {
    let mut open = String::new();
    let mut close: Vec<&'static str> = Vec::new();
    for i in 0..depth {
        match rng.below(5) {
            0 => {
                open.push_str("{% if true %}");
                close.push("{% endif %}");
            }
            1 => {
                open.push_str(&format!("{{% for q{} in (1..1) %}}", i % 3));
                close.push("{% endfor %}");
            }
            2 => {
                open.push_str("{% unless false %}");
                close.push("{% endunless %}");
            }
            3 => {
                open.push_str("{% case 1 %}{% when 1 %}");
                close.push("{% endcase %}");
            }
            _ => {
                open.push_str("{% ifchanged %}");
                close.push("{% endifchanged %}");
            }
        }
    }
    open.push_str(["{{ a }}.", "x", "{% increment c %}", "{{ s | upcase }}"][rng.below(4)]);
    for c in close.iter().rev() {
        open.push_str(c);
    }
    open
}

pub fn near_duplicate(nodes: &[Node], rng: &mut Rng) -> Vec<Node> {
    let mut copy = nodes.to_vec();
    let changed = {
        let mut sites: Vec<&mut Expr> = vec![];
        exprs_mut(&mut copy, &mut sites);
        let lits: Vec<usize> = sites.iter().enumerate().filter(|(_, e)| matches!(e, Expr::Str(_) | Expr::Int(_))).map(|(i, _)| i).collect();
        if lits.is_empty() {
            false
        } else {
            let i = lits[rng.below(lits.len())];
            let new = match &*sites[i] {
                Expr::Str(x) => {
                    let alt = match rng.below(4) {
                        0 => format!("{x} "),
                        1 => x.replace(' ', ""),
                        2 => x.trim().to_string(),
                        _ => STRS[rng.below(STRS.len())].to_string(),
                    };
                    if alt == *x {
                        Expr::Str(format!(" {x}"))
                    } else {
                        Expr::Str(alt)
                    }
                }
                Expr::Int(v) => Expr::Int(v + 1),
                other => other.clone(),
            };
            *sites[i] = new;
            true
        }
    };
    if !changed {
        // no literal to vary: change or add a text node instead
        if let Some(Node::Text(t)) = copy.iter_mut().find(|n| matches!(n, Node::Text(_))) {
            t.push(' ');
        } else {
            copy.push(Node::Text(" ".into()));
        }
    }
    copy
}

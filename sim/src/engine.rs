//! Engine interface shared by all per-property simulators, plus the generic minimiser.

use serde_json::Value as Json;
use std::collections::BTreeMap;
use std::time::Instant;

#[derive(Clone, Debug)]
pub struct Violation {
    /// Which invariant failed (e.g. "F1-ok-after-fault").
    pub class: String,
    /// Stable identification of *what* fails (for known-findings matching).
    pub signature: String,
    /// Human-readable explanation.
    pub detail: String,
    /// Complete scenario; `replay` needs nothing else.
    pub scenario: Json,
}

#[derive(Default)]
pub struct RunReport {
    /// Cases executed by this run (renders, comparisons, executions ...).
    pub evals: u64,
    /// Logical time: seam crossings (sink writes, source reads, data lookups, yields, lock ops).
    pub logical_time: u64,
    /// Named counters: fault kinds fired, probes, discards.
    pub counters: BTreeMap<String, u64>,
    /// Hash keys of the distinct non-trivial cases of this run.
    pub distinct: Vec<u64>,
    /// Digest of everything observable in the run (determinism proof).
    pub digest: u64,
    pub sample: Option<Json>,
    pub violations: Vec<Violation>,
}

impl RunReport {
    pub fn bump(&mut self, k: &str, by: u64) {
        if by > 0 {
            *self.counters.entry(k.to_string()).or_insert(0) += by;
        }
    }
}

pub trait Engine: Sync + Send {
    fn id(&self) -> &'static str;
    fn level(&self) -> &'static str;
    /// Number of runs for the tier.
    fn runs(&self, quick: bool) -> u64;
    fn run(&self, master: u64, index: u64, quick: bool) -> RunReport;
    /// Re-execute a scenario file; Ok(Some) = violation reproduced.
    fn replay(&self, scenario: &Json) -> Result<Option<Violation>, String>;
    fn minimise(&self, v: &Violation, _deadline: Instant) -> Violation {
        v.clone()
    }
    fn rule(&self) -> String;
    fn assumptions(&self) -> Vec<String>;
    fn components(&self) -> Json;
    /// True if the finite part of the space was enumerated completely in this tier.
    fn exhaustive_note(&self, _quick: bool) -> Option<String> {
        None
    }
    /// True when the finite space named in `exhaustive_note` was enumerated completely.
    fn exhaustive(&self, _quick: bool) -> bool {
        false
    }
    /// Execute every run on a fresh OS thread (clean thread-local state per run).
    fn fresh_thread_per_run(&self) -> bool {
        false
    }
    /// Counters that must be non-zero after a full tier (reach probes).
    fn required_probes(&self) -> Vec<&'static str> {
        vec![]
    }
}

/// Greedy delta-debugging: keep applying the first candidate that still fails.
pub fn minimise_greedy<S: Clone>(start: S, candidates: impl Fn(&S) -> Vec<S>, still_fails: impl Fn(&S) -> bool, deadline: Instant) -> S {
    let mut cur = start;
    'outer: loop {
        if Instant::now() > deadline {
            break;
        }
        for c in candidates(&cur) {
            if Instant::now() > deadline {
                break 'outer;
            }
            if still_fails(&c) {
                cur = c;
                continue 'outer;
            }
        }
        break;
    }
    cur
}

#![allow(dead_code)]
//! liquid-sim: deterministic simulation with fault injection for liquid-rust.
//!
//!   liquid-sim check <Cxx> [--tier quick|thorough] [--seed N] [--workers W] [--runs N]
//!   liquid-sim replay <file.json>
//!   liquid-sim digest <Cxx> --from A --to B [--tier quick]      (one "index digest" line per run)
//!
//! Exit 0: property held on everything explored. Exit 1: `VIOLATION property=<id> replay=<path>`.
//! Exit 2: harness error (never a violation).

mod calls;
mod data;
mod engine;
mod engines;
mod gen;
mod prng;
mod scenario;
mod sched;
mod seams;
mod world;

use engine::{Engine, RunReport, Violation};
use serde_json::{json, Value as Json};
use std::collections::{BTreeMap, HashSet};
use std::sync::atomic::{AtomicU64, Ordering};
use std::sync::Mutex;
use std::time::{Duration, Instant};

/// Root of the verification checkout (evidence/, replays/, known_findings.json). check.sh exports
/// LIQUID_SIM_VERIF_DIR so that a snapshot of /verif writes into itself.
fn verif_dir() -> String {
    std::env::var("LIQUID_SIM_VERIF_DIR").unwrap_or_else(|_| "/verif".to_string())
}

fn engine_for(id: &str) -> Option<Box<dyn Engine>> {
    engines::all().into_iter().find(|e| e.id() == id)
}

struct Args {
    cmd: String,
    target: String,
    tier_quick: bool,
    seed: u64,
    workers: usize,
    runs: Option<u64>,
    from: u64,
    to: u64,
    no_evidence: bool,
    offset: u64,
    stride: u64,
    stop_file: Option<String>,
    in_process: bool,
}

fn parse_args() -> Result<Args, String> {
    let a: Vec<String> = std::env::args().collect();
    if a.len() < 3 {
        return Err("usage: liquid-sim check|replay|digest <target> [options]".into());
    }
    let mut args = Args {
        cmd: a[1].clone(),
        target: a[2].clone(),
        tier_quick: std::env::var("VERIF_TIER").map(|t| t != "thorough").unwrap_or(true),
        seed: std::env::var("VERIF_SEED").ok().and_then(|s| s.trim().parse::<u64>().ok()).unwrap_or(1),
        workers: std::thread::available_parallelism().map(|n| n.get()).unwrap_or(4).min(16),
        runs: None,
        from: 0,
        to: 64,
        no_evidence: false,
        offset: 0,
        stride: 1,
        stop_file: None,
        in_process: std::env::var("LIQUID_SIM_IN_PROCESS").is_ok(),
    };
    let mut i = 3;
    while i < a.len() {
        let val = |i: usize| a.get(i + 1).cloned().ok_or_else(|| format!("missing value for {}", a[i]));
        match a[i].as_str() {
            "--tier" => {
                args.tier_quick = val(i)? != "thorough";
                i += 1;
            }
            "--seed" => {
                args.seed = val(i)?.parse().map_err(|e| format!("--seed: {e}"))?;
                i += 1;
            }
            "--workers" => {
                args.workers = val(i)?.parse().map_err(|e| format!("--workers: {e}"))?;
                i += 1;
            }
            "--runs" => {
                args.runs = Some(val(i)?.parse().map_err(|e| format!("--runs: {e}"))?);
                i += 1;
            }
            "--from" => {
                args.from = val(i)?.parse().map_err(|e| format!("--from: {e}"))?;
                i += 1;
            }
            "--to" => {
                args.to = val(i)?.parse().map_err(|e| format!("--to: {e}"))?;
                i += 1;
            }
            "--no-evidence" => args.no_evidence = true,
            "--in-process" => args.in_process = true,
            "--offset" => {
                args.offset = val(i)?.parse().map_err(|e| format!("--offset: {e}"))?;
                i += 1;
            }
            "--stride" => {
                args.stride = val(i)?.parse().map_err(|e| format!("--stride: {e}"))?;
                i += 1;
            }
            "--stop-file" => {
                args.stop_file = Some(val(i)?);
                i += 1;
            }
            other => return Err(format!("unknown option {other}")),
        }
        i += 1;
    }
    Ok(args)
}

#[derive(Debug, Clone)]
struct KnownFinding {
    property: String,
    class: String,
    signature: String,
    what: String,
}

fn load_known() -> Result<Vec<KnownFinding>, String> {
    let p = format!("{}/known_findings.json", verif_dir());
    let Ok(txt) = std::fs::read_to_string(&p) else { return Ok(vec![]) };
    let j: Json = serde_json::from_str(&txt).map_err(|e| format!("{p}: {e}"))?;
    let mut v = vec![];
    for f in j.get("known").and_then(|k| k.as_array()).cloned().unwrap_or_default() {
        let g = |k: &str| f.get(k).and_then(|x| x.as_str()).unwrap_or("").to_string();
        v.push(KnownFinding { property: g("property"), class: g("class"), signature: g("signature"), what: g("what") });
    }
    Ok(v)
}

fn matches_known(k: &[KnownFinding], prop: &str, v: &Violation) -> Option<KnownFinding> {
    k.iter().find(|f| f.property == prop && f.class == v.class && f.signature == v.signature).cloned()
}

#[derive(Default)]
struct Agg {
    runs: u64,
    evals: u64,
    logical_time: u64,
    counters: BTreeMap<String, u64>,
    distinct: HashSet<u64>,
    samples: Vec<Json>,
    digests: BTreeMap<u64, u64>,
    violations: Vec<(u64, Violation)>,
    known_hits: BTreeMap<String, (String, u64)>,
}

/// Index schedule of one batch: indices from + offset + n*stride below `to`.
#[derive(Clone, Copy)]
struct Span {
    from: u64,
    to: u64,
    offset: u64,
    stride: u64,
}

fn run_batch_inproc(eng: &dyn Engine, seed: u64, quick: bool, span: Span, workers: usize, known: &[KnownFinding], keep_digests: bool, stop_file: Option<&str>, emit: Option<&(dyn Fn(u64, &RunReport) + Sync)>) -> Agg {
    let (from, to) = (span.from, span.to);
    let next = AtomicU64::new(0);
    let min_fail = AtomicU64::new(u64::MAX);
    let agg = Mutex::new(Agg::default());
    // watchdog: a single run that does not finish within RUN_LIMIT is a harness problem (a generated
    // workload that makes the library loop or grow without bound), never a verdict
    const RUN_LIMIT: Duration = Duration::from_secs(300);
    let in_flight: Mutex<BTreeMap<u64, Instant>> = Mutex::new(BTreeMap::new());
    let batch_done = std::sync::atomic::AtomicBool::new(false);
    let workers_left = AtomicU64::new(workers.max(1) as u64);
    std::thread::scope(|sc| {
        sc.spawn(|| {
            while !batch_done.load(Ordering::SeqCst) {
                std::thread::sleep(Duration::from_millis(500));
                let stuck: Vec<u64> = in_flight.lock().unwrap().iter().filter(|(_, t)| t.elapsed() > RUN_LIMIT).map(|(i, _)| *i).collect();
                if let Some(i) = stuck.first() {
                    eprintln!("HARNESS-ERROR: {} run index {} (VERIF_SEED={}) did not finish within {:?}; the generated workload probably makes the library loop or grow without bound", eng.id(), i, seed, RUN_LIMIT);
                    std::process::exit(2);
                }
            }
        });
        for _ in 0..workers.max(1) {
            let _ = std::thread::Builder::new().stack_size(256 << 20).spawn_scoped(sc, || {
                sched::install_hooks();
                let mut local = Agg::default();
                loop {
                    let n = next.fetch_add(1, Ordering::SeqCst);
                    let i = from + span.offset + n * span.stride.max(1);
                    if i >= to || i > min_fail.load(Ordering::SeqCst) {
                        break;
                    }
                    if let Some(sf) = stop_file {
                        // another process found a violation at a lower index: nothing above it matters
                        if let Ok(txt) = std::fs::read_to_string(sf) {
                            if let Ok(limit) = txt.trim().parse::<u64>() {
                                if i > limit {
                                    break;
                                }
                            }
                        }
                    }
                    in_flight.lock().unwrap().insert(i, Instant::now());
                    let outcome = if eng.fresh_thread_per_run() {
                        // thread-local state a change might introduce must not travel from run to run
                        std::thread::scope(|s2| {
                            std::thread::Builder::new()
                                .stack_size(256 << 20)
                                .spawn_scoped(s2, || sched::catch(|| eng.run(seed, i, quick)))
                                .expect("spawn run thread")
                                .join()
                                .unwrap_or_else(|_| Err("run thread died".to_string()))
                        })
                    } else {
                        sched::catch(|| eng.run(seed, i, quick))
                    };
                    let rep: RunReport = match outcome {
                        Ok(r) => r,
                        Err(p) => {
                            eprintln!("HARNESS-ERROR: engine {} run {} panicked: {}", eng.id(), i, p);
                            std::process::exit(2);
                        }
                    };
                    in_flight.lock().unwrap().remove(&i);
                    if let Some(e) = emit {
                        e(i, &rep);
                    }
                    local.runs += 1;
                    local.evals += rep.evals;
                    local.logical_time += rep.logical_time;
                    for (k, v) in rep.counters {
                        *local.counters.entry(k).or_insert(0) += v;
                    }
                    local.distinct.extend(rep.distinct);
                    if let Some(s) = rep.sample {
                        if local.samples.len() < 4 {
                            local.samples.push(json!({"run": i, "case": s}));
                        }
                    }
                    if keep_digests {
                        local.digests.insert(i, rep.digest);
                    }
                    for v in rep.violations {
                        if let Some(k) = matches_known(known, eng.id(), &v) {
                            let e = local.known_hits.entry(format!("{}|{}", k.class, k.signature)).or_insert((k.what.clone(), 0));
                            e.1 += 1;
                        } else {
                            min_fail.fetch_min(i, Ordering::SeqCst);
                            local.violations.push((i, v));
                        }
                    }
                }
                let mut g = agg.lock().unwrap();
                g.runs += local.runs;
                g.evals += local.evals;
                g.logical_time += local.logical_time;
                for (k, v) in local.counters {
                    *g.counters.entry(k).or_insert(0) += v;
                }
                g.distinct.extend(local.distinct);
                g.samples.extend(local.samples);
                g.digests.extend(local.digests);
                g.violations.extend(local.violations);
                for (k, (w, n)) in local.known_hits {
                    let e = g.known_hits.entry(k).or_insert((w, 0));
                    e.1 += n;
                }
                drop(g);
                if workers_left.fetch_sub(1, Ordering::SeqCst) == 1 {
                    batch_done.store(true, Ordering::SeqCst);
                }
            });
        }
    });
    let mut a = agg.into_inner().unwrap();
    a.violations.sort_by_key(|(i, _)| *i);
    a.samples.sort_by_key(|s| s.get("run").and_then(|r| r.as_u64()).unwrap_or(0));
    a.samples.truncate(4);
    a
}

/// One batch of runs. By default the runs are distributed over child PROCESSES (one simulated world
/// at a time per process): process-wide state a change might introduce (a `static`, an allocator
/// trick) can then not travel between simulations that merely share this harness's address space,
/// and a crash of the library (abort, stack overflow) kills one child, not the verdict.
fn run_batch(eng: &dyn Engine, seed: u64, quick: bool, from: u64, to: u64, workers: usize, known: &[KnownFinding], keep_digests: bool, in_process: bool) -> Agg {
    let span = Span { from, to, offset: 0, stride: 1 };
    if in_process {
        return run_batch_inproc(eng, seed, quick, span, workers, known, keep_digests, None, None);
    }
    let exe = match std::env::current_exe() {
        Ok(e) => e,
        Err(e) => {
            eprintln!("HARNESS-ERROR: cannot find own executable: {e}");
            std::process::exit(2);
        }
    };
    let w = workers.max(1) as u64;
    let stop_file = std::env::temp_dir().join(format!("liquid-sim-stop-{}-{}", std::process::id(), from));
    let _ = std::fs::remove_file(&stop_file);
    let agg = Mutex::new(Agg::default());
    let min_fail = AtomicU64::new(u64::MAX);
    let failed_child: Mutex<Option<String>> = Mutex::new(None);
    std::thread::scope(|sc| {
        for k in 0..w {
            let exe = exe.clone();
            let stop_file = stop_file.clone();
            let agg = &agg;
            let min_fail = &min_fail;
            let failed_child = &failed_child;
            sc.spawn(move || {
                use std::io::BufRead;
                let mut child = match std::process::Command::new(&exe)
                    .arg("chunk")
                    .arg(eng.id())
                    .args(["--seed", &seed.to_string(), "--tier", if quick { "quick" } else { "thorough" }])
                    .args(["--from", &from.to_string(), "--to", &to.to_string()])
                    .args(["--offset", &k.to_string(), "--stride", &w.to_string()])
                    .args(["--stop-file", &stop_file.to_string_lossy()])
                    .stdout(std::process::Stdio::piped())
                    .stderr(std::process::Stdio::piped())
                    .spawn()
                {
                    Ok(c) => c,
                    Err(e) => {
                        *failed_child.lock().unwrap() = Some(format!("cannot start child {k}: {e}"));
                        return;
                    }
                };
                let out = child.stdout.take().expect("piped stdout");
                let mut local = Agg::default();
                for line in std::io::BufReader::new(out).lines().map_while(Result::ok) {
                    let Ok(j) = serde_json::from_str::<Json>(&line) else { continue };
                    let Some(i) = j.get("i").and_then(|x| x.as_u64()) else { continue };
                    local.runs += 1;
                    local.evals += j["evals"].as_u64().unwrap_or(0);
                    local.logical_time += j["lt"].as_u64().unwrap_or(0);
                    if let Some(c) = j["counters"].as_object() {
                        for (key, v) in c {
                            *local.counters.entry(key.clone()).or_insert(0) += v.as_u64().unwrap_or(0);
                        }
                    }
                    if let Some(d) = j["distinct"].as_array() {
                        local.distinct.extend(d.iter().filter_map(|x| x.as_u64()));
                    }
                    if !j["sample"].is_null() && local.samples.len() < 4 {
                        local.samples.push(json!({"run": i, "case": j["sample"].clone()}));
                    }
                    if keep_digests {
                        local.digests.insert(i, j["digest"].as_u64().unwrap_or(0));
                    }
                    for v in j["violations"].as_array().cloned().unwrap_or_default() {
                        let g = |k: &str| v.get(k).and_then(|x| x.as_str()).unwrap_or("").to_string();
                        let viol = Violation { class: g("class"), signature: g("signature"), detail: g("detail"), scenario: v["scenario"].clone() };
                        if let Some(kf) = matches_known(known, eng.id(), &viol) {
                            let e = local.known_hits.entry(format!("{}|{}", kf.class, kf.signature)).or_insert((kf.what.clone(), 0));
                            e.1 += 1;
                        } else {
                            let prev = min_fail.fetch_min(i, Ordering::SeqCst);
                            if i < prev {
                                let _ = std::fs::write(&stop_file, min_fail.load(Ordering::SeqCst).to_string());
                            }
                            local.violations.push((i, viol));
                        }
                    }
                }
                let mut err = String::new();
                if let Some(mut e) = child.stderr.take() {
                    use std::io::Read;
                    let _ = e.read_to_string(&mut err);
                }
                match child.wait() {
                    Ok(st) if st.success() => {}
                    Ok(st) => {
                        let tail: Vec<&str> = err.lines().filter(|l| !l.starts_with("WARNING conda")).rev().take(6).collect();
                        *failed_child.lock().unwrap() = Some(format!("child {k} of {} ended with {st}: {}", eng.id(), tail.into_iter().rev().collect::<Vec<_>>().join(" | ")));
                    }
                    Err(e) => *failed_child.lock().unwrap() = Some(format!("child {k}: {e}")),
                }
                let mut g = agg.lock().unwrap();
                g.runs += local.runs;
                g.evals += local.evals;
                g.logical_time += local.logical_time;
                for (key, v) in local.counters {
                    *g.counters.entry(key).or_insert(0) += v;
                }
                g.distinct.extend(local.distinct);
                g.samples.extend(local.samples);
                g.digests.extend(local.digests);
                g.violations.extend(local.violations);
                for (key, (what, n)) in local.known_hits {
                    let e = g.known_hits.entry(key).or_insert((what, 0));
                    e.1 += n;
                }
            });
        }
    });
    let _ = std::fs::remove_file(&stop_file);
    let mut a = agg.into_inner().unwrap();
    a.violations.sort_by_key(|(i, _)| *i);
    // runs above the lowest failing index are not part of the verdict (children stop there too)
    if let Some(fc) = failed_child.into_inner().unwrap() {
        if a.violations.is_empty() {
            eprintln!("HARNESS-ERROR: {fc}");
            std::process::exit(2);
        }
    }
    a.samples.sort_by_key(|s| s.get("run").and_then(|r| r.as_u64()).unwrap_or(0));
    a.samples.truncate(4);
    a
}

/// Child side of `run_batch`: run a strided slice of the index space in this process, one run at a
/// time, printing one JSON line per run.
fn cmd_chunk(args: &Args) -> i32 {
    let Some(eng) = engine_for(&args.target) else {
        eprintln!("HARNESS-ERROR: no engine for {}", args.target);
        return 2;
    };
    let known = load_known().unwrap_or_default();
    let span = Span { from: args.from, to: args.to, offset: args.offset, stride: args.stride.max(1) };
    let out = Mutex::new(std::io::stdout());
    let emit = |i: u64, rep: &RunReport| {
        use std::io::Write;
        let viols: Vec<Json> = rep.violations.iter().map(|v| json!({"class": v.class, "signature": v.signature, "detail": v.detail, "scenario": v.scenario})).collect();
        let line = json!({"i": i, "evals": rep.evals, "lt": rep.logical_time, "counters": rep.counters, "distinct": rep.distinct, "digest": rep.digest, "sample": rep.sample, "violations": viols});
        let mut o = out.lock().unwrap();
        let _ = writeln!(o, "{line}");
        let _ = o.flush();
    };
    let _ = run_batch_inproc(eng.as_ref(), args.seed, args.tier_quick, span, 1, &known, false, args.stop_file.as_deref(), Some(&emit));
    0
}

fn write_evidence(eng: &dyn Engine, quick: bool, seed: u64, agg: &Agg, wall: f64, violations: u64, notes: Vec<String>) -> Result<(), String> {
    let hours = wall / 3600.0;
    let mut faults = BTreeMap::new();
    let mut probes = BTreeMap::new();
    for (k, v) in &agg.counters {
        if k.starts_with("fault.") {
            faults.insert(k.clone(), *v);
        } else {
            probes.insert(k.clone(), *v);
        }
    }
    let samples: Vec<Json> = if agg.samples.is_empty() { vec![json!("no sample recorded")] } else { agg.samples.clone() };
    let ev = json!({
        "property_id": eng.id(),
        "tier": if quick { "quick" } else { "thorough" },
        "seed": seed,
        "level": eng.level(),
        "wall_s": (wall * 1000.0).round() / 1000.0,
        "violations": violations,
        "coverage": {
            "evaluations": agg.evals,
            "distinct_nontrivial": agg.distinct.len(),
            "rule": eng.rule(),
            "samples": samples,
            "exhaustive": eng.exhaustive(quick),
            "exhaustive_note": eng.exhaustive_note(quick),
            "simulated_runs": agg.runs,
            "simulated_runs_per_hour": if hours > 0.0 { (agg.runs as f64 / hours).round() } else { 0.0 },
            "evaluations_per_hour": if hours > 0.0 { (agg.evals as f64 / hours).round() } else { 0.0 },
            "simulated_time": {"unit": "logical seam events (sink writes, source reads, data lookups, yield points, lock operations, scheduler decisions); the library has no clock or timer to simulate", "events": agg.logical_time},
            "faults_injected": faults,
            "probes": probes,
            "components": eng.components(),
            "known_findings_hit": agg.known_hits.iter().map(|(k, (w, n))| json!({"finding": k, "what": w, "times": n})).collect::<Vec<_>>(),
            "notes": notes,
        },
        "assumptions": eng.assumptions(),
    });
    let dir = format!("{}/evidence", verif_dir());
    std::fs::create_dir_all(&dir).map_err(|e| e.to_string())?;
    let path = format!("{dir}/{}.json", eng.id());
    let tmp = format!("{path}.tmp");
    std::fs::write(&tmp, serde_json::to_string_pretty(&ev).unwrap()).map_err(|e| e.to_string())?;
    std::fs::rename(&tmp, &path).map_err(|e| e.to_string())?;
    Ok(())
}

fn cmd_check(args: &Args) -> i32 {
    let Some(eng) = engine_for(&args.target) else {
        eprintln!("HARNESS-ERROR: no engine for {}", args.target);
        return 2;
    };
    let known = match load_known() {
        Ok(k) => k,
        Err(e) => {
            eprintln!("HARNESS-ERROR: {e}");
            return 2;
        }
    };
    let quick = args.tier_quick;
    let runs = args.runs.unwrap_or_else(|| eng.runs(quick));
    println!("liquid-sim check {} tier={} VERIF_SEED={} runs={} workers={}", eng.id(), if quick { "quick" } else { "thorough" }, args.seed, runs, args.workers);
    let t0 = Instant::now();
    let agg = run_batch(eng.as_ref(), args.seed, quick, 0, runs, args.workers, &known, true, args.in_process);
    // determinism self-check: re-execute the first runs on one worker and compare digests
    let mut notes = vec![format!(
        "std::sync interposition in this build: {}",
        std::env::var("LIQUID_SIM_INTERPOSE").unwrap_or_else(|_| "unknown (binary started without check.sh)".into())
    )];
    if agg.violations.is_empty() {
        let n = 32.min(runs);
        let again = run_batch(eng.as_ref(), args.seed, quick, 0, n, 1, &known, true, args.in_process);
        for (i, d) in &again.digests {
            if agg.digests.get(i) != Some(d) {
                eprintln!("HARNESS-ERROR: run {i} of {} is not deterministic (digest {:x} vs {:x})", eng.id(), d, agg.digests.get(i).copied().unwrap_or(0));
                return 2;
            }
        }
        notes.push(format!("determinism self-check: first {n} runs re-executed on 1 worker, digests identical"));
    }
    let wall = t0.elapsed().as_secs_f64();
    if agg.violations.is_empty() && agg.counters.get("replay_probe.MISMATCH").copied().unwrap_or(0) > 0 {
        eprintln!("HARNESS-ERROR: a recorded schedule did not replay to the identical event log ({} of {} probes)", agg.counters["replay_probe.MISMATCH"], agg.counters.get("replay_probe.executions").copied().unwrap_or(0));
        return 2;
    }
    for (k, (what, n)) in &agg.known_hits {
        println!("KNOWN-FINDING: property={} {} [{}] (hit {} times)", eng.id(), what, k, n);
    }
    // reach probes
    if args.runs.is_none() && agg.violations.is_empty() {
        for p in eng.required_probes() {
            if agg.counters.get(p).copied().unwrap_or(0) == 0 {
                notes.push(format!("REACH-WARNING: probe {p} stayed at zero"));
                eprintln!("REACH-WARNING: probe {p} stayed at zero in this {} run", if quick { "quick" } else { "thorough" });
            }
        }
    }
    let mut exit = 0;
    let mut reported = 0u64;
    if let Some((idx, v)) = agg.violations.first() {
        let deadline = Instant::now() + Duration::from_secs(if quick { 60 } else { 180 });
        let vmin = match sched::catch(|| eng.minimise(v, deadline)) {
            Ok(m) => m,
            Err(_) => v.clone(),
        };
        let file = format!("{}/replays/{}-{:016x}-{}.json", verif_dir(), eng.id(), prng::run_seed(args.seed, eng.id(), *idx), v.class);
        let _ = std::fs::create_dir_all(format!("{}/replays", verif_dir()));
        let body = json!({
            "property": eng.id(),
            "class": vmin.class,
            "signature": vmin.signature,
            "detail": vmin.detail,
            "verif_seed": args.seed,
            "run_index": idx,
            "original_detail": v.detail,
            "scenario": vmin.scenario,
        });
        if let Err(e) = std::fs::write(&file, serde_json::to_string_pretty(&body).unwrap()) {
            eprintln!("HARNESS-ERROR: cannot write {file}: {e}");
            return 2;
        }
        // the reported file must reproduce in a fresh process; otherwise fall back to the unminimised one
        let ok = replay_in_fresh_process(&file, &vmin.class);
        if !ok {
            let body = json!({
                "property": eng.id(), "class": v.class, "signature": v.signature, "detail": v.detail,
                "verif_seed": args.seed, "run_index": idx, "scenario": v.scenario,
            });
            let _ = std::fs::write(&file, serde_json::to_string_pretty(&body).unwrap());
            if !replay_in_fresh_process(&file, &v.class) {
                // The scenario alone does not reproduce: the violation needs state that EARLIER runs of
                // the same child process left behind (a thread-local or a static). Fall back to a
                // replay by seed: the exact sequence of runs that child executed, up to the failing one.
                let w = args.workers.max(1) as u64;
                let body = json!({
                    "property": eng.id(), "class": v.class, "signature": v.signature, "detail": v.detail,
                    "verif_seed": args.seed, "run_index": idx,
                    "by_seed": {"seed": args.seed, "quick": quick, "to": idx + 1, "offset": idx % w, "stride": w},
                    "scenario": v.scenario,
                });
                let _ = std::fs::write(&file, serde_json::to_string_pretty(&body).unwrap());
                if replay_in_fresh_process(&file, &v.class) {
                    notes.push("the violation needs state carried over from earlier runs of the same process; the replay file re-executes that run sequence by seed".into());
                } else {
                    notes.push("replay of the reported scenario did not reproduce in a fresh process".into());
                    eprintln!("WARNING: replay of {file} did not reproduce in a fresh process");
                }
            }
        }
        println!("violation class={} run_index={} detail: {}", v.class, idx, vmin.detail);
        println!("VIOLATION property={} replay={}", eng.id(), file);
        reported = 1;
        exit = 1;
    }
    if !args.no_evidence {
        if let Err(e) = write_evidence(eng.as_ref(), quick, args.seed, &agg, wall, reported, notes) {
            eprintln!("HARNESS-ERROR: evidence: {e}");
            return 2;
        }
    }
    println!(
        "{} {}: runs={} evaluations={} distinct_nontrivial={} logical_events={} wall={:.1}s",
        eng.id(),
        if exit == 0 { "OK" } else { "FAILED" },
        agg.runs,
        agg.evals,
        agg.distinct.len(),
        agg.logical_time,
        wall
    );
    exit
}

fn replay_in_fresh_process(file: &str, class: &str) -> bool {
    let Ok(exe) = std::env::current_exe() else { return false };
    match std::process::Command::new(exe).arg("replay").arg(file).output() {
        Ok(o) => {
            let out = String::from_utf8_lossy(&o.stdout);
            o.status.code() == Some(1) && out.contains(&format!("class={class}"))
        }
        Err(_) => false,
    }
}

fn cmd_replay(args: &Args) -> i32 {
    sched::install_hooks();
    let txt = match std::fs::read_to_string(&args.target) {
        Ok(t) => t,
        Err(e) => {
            eprintln!("HARNESS-ERROR: cannot read {}: {e}", args.target);
            return 2;
        }
    };
    let j: Json = match serde_json::from_str(&txt) {
        Ok(j) => j,
        Err(e) => {
            eprintln!("HARNESS-ERROR: bad replay file: {e}");
            return 2;
        }
    };
    let prop = j.get("property").and_then(|p| p.as_str()).unwrap_or("");
    let Some(eng) = engine_for(prop) else {
        eprintln!("HARNESS-ERROR: no engine for property {prop:?}");
        return 2;
    };
    let want = j.get("class").and_then(|p| p.as_str()).unwrap_or("").to_string();
    if let Some(bs) = j.get("by_seed") {
        // re-execute, in this fresh process and on one worker, the run sequence of the child that found it
        let seed = bs["seed"].as_u64().unwrap_or(1);
        let quick = bs["quick"].as_bool().unwrap_or(true);
        let span = Span { from: 0, to: bs["to"].as_u64().unwrap_or(1), offset: bs["offset"].as_u64().unwrap_or(0), stride: bs["stride"].as_u64().unwrap_or(1).max(1) };
        let agg = run_batch_inproc(eng.as_ref(), seed, quick, span, 1, &[], false, None, None);
        return match agg.violations.first() {
            Some((i, v)) => {
                println!("replayed by seed (runs {}, {}+{}.. up to {}): class={} at run {} detail: {}", span.offset, span.offset, span.stride, span.to - 1, v.class, i, v.detail);
                println!("VIOLATION property={} replay={}", prop, args.target);
                1
            }
            None => {
                println!("replay of {} (by seed) did not violate {} (recorded class {})", args.target, prop, want);
                0
            }
        };
    }
    match sched::catch(|| eng.replay(&j["scenario"])) {
        Ok(Ok(Some(v))) => {
            println!("replayed: class={} detail: {}", v.class, v.detail);
            if !want.is_empty() && v.class != want {
                println!("note: recorded class was {want}");
            }
            println!("VIOLATION property={} replay={}", prop, args.target);
            1
        }
        Ok(Ok(None)) => {
            println!("replay of {} did not violate {} (recorded class {})", args.target, prop, want);
            0
        }
        Ok(Err(e)) => {
            eprintln!("HARNESS-ERROR: {e}");
            2
        }
        Err(p) => {
            eprintln!("HARNESS-ERROR: replay panicked: {p}");
            2
        }
    }
}

fn cmd_digest(args: &Args) -> i32 {
    let Some(eng) = engine_for(&args.target) else {
        eprintln!("HARNESS-ERROR: no engine for {}", args.target);
        return 2;
    };
    let agg = run_batch(eng.as_ref(), args.seed, args.tier_quick, args.from, args.to, args.workers, &[], true, args.in_process);
    for (i, d) in &agg.digests {
        println!("{i} {d:016x}");
    }
    if !agg.violations.is_empty() {
        println!("violations {}", agg.violations.len());
    }
    0
}

fn main() {
    let args = match parse_args() {
        Ok(a) => a,
        Err(e) => {
            eprintln!("HARNESS-ERROR: {e}");
            std::process::exit(2);
        }
    };
    sched::install_hooks();
    let code = match args.cmd.as_str() {
        "check" => cmd_check(&args),
        "replay" => cmd_replay(&args),
        "digest" => cmd_digest(&args),
        "chunk" => cmd_chunk(&args),
        "oracle-c09" => engines::c09::oracle_main(),
        "dbg-parse" => engines::dbg_parse(args.seed, args.to),
        "dbg-world" => engines::dbg_world(args.seed, args.from),
        "dbg-c20" => engines::dbg_c20(args.seed, args.from),
        other => {
            eprintln!("HARNESS-ERROR: unknown command {other}");
            2
        }
    };
    std::process::exit(code);
}

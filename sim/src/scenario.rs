//! Serialisable description of a world (partials, templates, data) and its instantiation.

use crate::data::Dv;
use crate::gen::{self, Node, PartialSet};
use crate::prng::Fnv;
use crate::seams::SimGlobals;
use crate::world::{self, PolicyKind, World};
use serde::{Deserialize, Serialize};

#[derive(Clone, Debug, PartialEq, Serialize, Deserialize)]
pub struct WorldSpec {
    pub partials: PartialSet,
    pub listing_rot: usize,
    pub templates: Vec<Vec<Node>>,
    pub datas: Vec<Dv>,
    /// Base of the hash-seed stream used while building data and rendering.
    pub hash_base: u64,
    /// Printed sources (informational; replay prints the ASTs again).
    #[serde(default)]
    pub template_src: Vec<String>,
    #[serde(default)]
    pub partial_src: Vec<(String, String)>,
}

impl WorldSpec {
    pub fn fill_sources(&mut self) {
        self.template_src = self.templates.iter().map(|t| gen::print_nodes(t)).collect();
        self.partial_src = self.partials.defs.iter().map(|d| (d.name.clone(), d.source())).collect();
    }

    pub fn hash(&self) -> u64 {
        let mut h = Fnv::new();
        for t in &self.templates {
            h.str(&gen::print_nodes(t));
        }
        for d in &self.partials.defs {
            h.str(&d.name).str(&d.source());
        }
        for d in &self.datas {
            h.str(&d.show());
        }
        h.finish()
    }

    pub fn build(&self, policy: PolicyKind) -> Result<World, String> {
        world::build(policy, &self.partials.map(), self.listing_rot)
    }

    /// Data objects as globals (built under the spec's hash-seed stream so that iteration
    /// orders are a function of the scenario).
    pub fn globals(&self) -> Vec<SimGlobals> {
        crate::sched::set_hash_stream(Some(self.hash_base ^ 0xD47A));
        let v = self.datas.iter().map(|d| SimGlobals::new(d.to_object())).collect();
        // everything the library builds afterwards draws from a second, equally fixed stream
        crate::sched::set_hash_stream(Some(self.hash_base ^ 0xBEEF));
        v
    }

    pub fn sources(&self) -> Vec<String> {
        self.templates.iter().map(|t| gen::print_nodes(t)).collect()
    }
}

/// Parse all templates of the spec on `parser`; Err if any fails (generator defect or discard).
pub fn parse_all(parser: &liquid::Parser, srcs: &[String]) -> Result<Vec<liquid::Template>, String> {
    srcs.iter().map(|s| world::parse(parser, s)).collect()
}

//! C11 — value equality and ordering are coherent and construction-independent.
//!
//! The per-instance hash seeds of `Object` are owned by the simulator (hook H2). One run is one
//! assignment of seeds and one insertion history per constructed object; every compound value is
//! built twice independently ("twins") and once canonically. Comparison laws and
//! construction-independence are invariants over all ordered pairs of the pool, through the Rust
//! API and through templates.

use crate::engine::{Engine, RunReport, Violation};
use crate::prng::{run_seed, Fnv, Rng};
use crate::world::Outcome;
use liquid::model::{Object, State, Value, ValueCow, ValueViewCmp};
use liquid::ValueView;
use serde::{Deserialize, Serialize};
use serde_json::{json, Value as Json};
use std::cmp::Ordering;
use std::time::Instant;

pub struct C11;

#[derive(Clone, Debug, PartialEq, Serialize, Deserialize)]
pub enum Pv {
    Nil,
    Bool(bool),
    Int(i64),
    Float(u64),
    Str(String),
    Date(i32, u8, u8),
    DateTime(String),
    Empty,
    Blank,
    Array(Vec<Pv>),
    Object(Vec<(String, Pv)>),
}

fn f(x: f64) -> Pv {
    Pv::Float(x.to_bits())
}
fn s(x: &str) -> Pv {
    Pv::Str(x.to_string())
}
fn o(e: &[(&str, Pv)]) -> Pv {
    Pv::Object(e.iter().map(|(k, v)| (k.to_string(), v.clone())).collect())
}

/// The value pool of the property's quantifier.
pub fn pool() -> Vec<Pv> {
    let p53 = 1i64 << 53;
    let six = |last: i64| {
        o(&[("a", Pv::Int(1)), ("b", Pv::Int(2)), ("c", Pv::Int(3)), ("d", Pv::Int(4)), ("e", Pv::Int(5)), ("f", Pv::Int(last))])
    };
    vec![
        Pv::Nil,
        Pv::Bool(true),
        Pv::Bool(false),
        Pv::Int(0),
        Pv::Int(1),
        Pv::Int(-1),
        Pv::Int(2),
        Pv::Int(p53),
        Pv::Int(p53 + 1),
        Pv::Int(i64::MIN),
        Pv::Int(i64::MAX),
        f(0.0),
        f(-0.0),
        f(0.5),
        f(1.0),
        f(-1.0),
        f(2.0),
        f(p53 as f64),
        f(9.223372036854775807e18),
        f(1.5),
        f(f64::INFINITY),
        f(f64::NEG_INFINITY),
        f(f64::NAN),
        s(""),
        s(" "),
        s("1"),
        s("1.0"),
        s("0"),
        s("true"),
        s("false"),
        s("abc"),
        s("Abc"),
        s("é∑"),
        Pv::Date(2020, 1, 2),
        Pv::Date(2021, 3, 4),
        Pv::DateTime("2020-01-02 00:00:00 +0000".into()),
        Pv::DateTime("2020-01-02 02:00:00 +0200".into()),
        Pv::DateTime("2021-03-04 05:06:07 +0000".into()),
        Pv::Empty,
        Pv::Blank,
        Pv::Array(vec![]),
        Pv::Array(vec![Pv::Int(1)]),
        Pv::Array(vec![Pv::Int(1), Pv::Int(2)]),
        Pv::Array(vec![f(1.0), Pv::Int(2)]),
        Pv::Array(vec![Pv::Int(1), f(2.5)]),
        Pv::Array(vec![Pv::Array(vec![]), Pv::Array(vec![Pv::Int(7)])]),
        Pv::Array(vec![Pv::Int(2), Pv::Int(1)]),
        Pv::Array(vec![s("a")]),
        Pv::Array(vec![Pv::Nil]),
        Pv::Array(vec![Pv::Array(vec![Pv::Int(1)]), Pv::Array(vec![Pv::Int(2)])]),
        Pv::Array(vec![o(&[("a", Pv::Int(1)), ("b", Pv::Int(2))])]),
        Pv::Array(vec![o(&[("a", Pv::Int(1)), ("b", Pv::Int(3))])]),
        o(&[]),
        o(&[("a", Pv::Int(1))]),
        o(&[("a", f(1.0))]),
        o(&[("a", Pv::Int(2))]),
        o(&[("b", Pv::Int(1))]),
        o(&[("a", Pv::Int(1)), ("b", Pv::Int(2))]),
        o(&[("a", Pv::Int(1)), ("b", Pv::Int(3))]),
        o(&[("a", Pv::Int(2)), ("b", Pv::Int(1))]),
        o(&[("a", Pv::Int(1)), ("c", Pv::Int(2))]),
        o(&[("a", Pv::Int(1)), ("b", Pv::Int(2)), ("c", Pv::Int(3)), ("d", Pv::Int(4))]),
        o(&[("a", Pv::Int(1)), ("b", Pv::Int(2)), ("c", Pv::Int(3)), ("d", s("x"))]),
        six(6),
        six(7),
        o(&[("a", Pv::Nil), ("b", Pv::Int(2))]),
        // same sizes, different key sets, "nothing-like" values under the keys that are not shared
        o(&[("a", Pv::Nil)]),
        o(&[("b", Pv::Nil)]),
        o(&[("a", Pv::Bool(false))]),
        o(&[("b", s(""))]),
        o(&[("b", Pv::Int(2)), ("c", Pv::Nil)]),
        o(&[("b", Pv::Int(2)), ("c", Pv::Bool(false))]),
        Pv::Array(vec![Pv::Bool(false)]),
        Pv::Array(vec![o(&[("a", Pv::Nil)])]),
        o(&[("o", o(&[("x", Pv::Int(1)), ("y", Pv::Int(2))])), ("p", Pv::Array(vec![Pv::Int(1), Pv::Int(2)]))]),
        o(&[("o", o(&[("x", Pv::Int(1)), ("y", Pv::Int(3))])), ("p", Pv::Array(vec![Pv::Int(1), Pv::Int(2)]))]),
        o(&[("o", o(&[("x", Pv::Int(1)), ("y", Pv::Int(2))])), ("p", Pv::Array(vec![Pv::Int(2), Pv::Int(1)]))]),
        o(&[("n", f(f64::NAN)), ("m", Pv::Int(1))]),
    ]
}

fn has_nan(p: &Pv) -> bool {
    match p {
        Pv::Float(b) => f64::from_bits(*b).is_nan(),
        Pv::Array(a) => a.iter().any(has_nan),
        Pv::Object(e) => e.iter().any(|(_, v)| has_nan(v)),
        _ => false,
    }
}

fn multi_key(p: &Pv) -> bool {
    match p {
        Pv::Array(a) => a.iter().any(multi_key),
        Pv::Object(e) => e.len() >= 2 || e.iter().any(|(_, v)| multi_key(v)),
        _ => false,
    }
}

/// How a twin is constructed.
#[derive(Default)]
struct BuildStats {
    permuted: u64,
    churned: u64,
    roundtrip: u64,
    cloned: u64,
}

/// Build a liquid value. `rng == None` is the canonical construction (given order, no churn).
fn build(p: &Pv, rng: &mut Option<&mut Rng>, st: &mut BuildStats) -> Value {
    match p {
        Pv::Nil => Value::Nil,
        Pv::Bool(b) => Value::scalar(*b),
        Pv::Int(i) => Value::scalar(*i),
        Pv::Float(b) => Value::scalar(f64::from_bits(*b)),
        Pv::Str(x) => Value::scalar(x.clone()),
        Pv::Date(y, m, d) => Value::scalar(liquid::model::Date::from_ymd(*y, *m, *d)),
        Pv::DateTime(x) => Value::scalar(liquid::model::DateTime::from_str(x).expect("pool datetime parses")),
        Pv::Empty => Value::State(State::Empty),
        Pv::Blank => Value::State(State::Blank),
        Pv::Array(a) => Value::Array(a.iter().map(|x| build(x, rng, st)).collect()),
        Pv::Object(e) => {
            let mut idx: Vec<usize> = (0..e.len()).collect();
            let mut churn = false;
            if let Some(r) = rng.as_mut() {
                if e.len() > 1 {
                    r.shuffle(&mut idx);
                    st.permuted += 1;
                }
                churn = r.chance(1, 3);
            }
            let mut obj = Object::new();
            if churn {
                // insert-then-remove changes the table layout (capacity, tombstones)
                st.churned += 1;
                let n = 1 + rng.as_mut().map(|r| r.below(12)).unwrap_or(0);
                for i in 0..n {
                    obj.insert(format!("zz{i}").into(), Value::Nil);
                }
                for i in idx.iter() {
                    let (k, v) = &e[*i];
                    let built = build(v, rng, st);
                    obj.insert(k.clone().into(), built);
                }
                for i in 0..n {
                    obj.remove(format!("zz{i}").as_str());
                }
            } else {
                for i in idx.iter() {
                    let (k, v) = &e[*i];
                    let built = build(v, rng, st);
                    obj.insert(k.clone().into(), built);
                }
            }
            let mut v = Value::Object(obj);
            if let Some(r) = rng.as_mut() {
                match r.below(6) {
                    0 => {
                        st.cloned += 1;
                        v = v.clone();
                    }
                    1 => {
                        st.cloned += 1;
                        v = v.to_value();
                    }
                    2 => {
                        // serde round trip rebuilds every object with fresh seeds
                        if let Ok(rt) = liquid::model::to_value(&v) {
                            if crate::data::deep_eq(&rt, &v) {
                                st.roundtrip += 1;
                                v = rt;
                            }
                        }
                    }
                    _ => {}
                }
            }
            v
        }
    }
}

#[derive(Clone, Copy, Debug, PartialEq, Eq)]
struct Out {
    eq: bool,
    ne: bool,
    lt: bool,
    gt: bool,
    le: bool,
    ge: bool,
    cmp: Option<Ordering>,
}

impl Out {
    fn code(&self) -> u64 {
        (self.eq as u64) | (self.ne as u64) << 1 | (self.lt as u64) << 2 | (self.gt as u64) << 3 | (self.le as u64) << 4 | (self.ge as u64) << 5
            | match self.cmp {
                None => 0,
                Some(Ordering::Less) => 1,
                Some(Ordering::Equal) => 2,
                Some(Ordering::Greater) => 3,
            } << 6
    }
    fn show(&self) -> String {
        format!("==:{} !=:{} <:{} >:{} <=:{} >=:{} cmp:{:?}", self.eq, self.ne, self.lt, self.gt, self.le, self.ge, self.cmp)
    }
}

fn compare_cmp(a: &Value, b: &Value) -> Out {
    let (x, y) = (ValueViewCmp::new(a), ValueViewCmp::new(b));
    Out { eq: x == y, ne: x != y, lt: x < y, gt: x > y, le: x <= y, ge: x >= y, cmp: x.partial_cmp(&y) }
}

fn compare_value(a: &Value, b: &Value) -> Out {
    Out { eq: a == b, ne: a != b, lt: a < b, gt: a > b, le: a <= b, ge: a >= b, cmp: a.partial_cmp(b) }
}

#[derive(Clone, Debug, Serialize, Deserialize)]
pub struct Scn {
    /// Seed of the construction stream of this run.
    pub construction_seed: u64,
    pub hash_base: u64,
    pub a: Pv,
    pub b: Pv,
    /// For template-level violations: the template and the data keys.
    pub template: Option<String>,
    pub class: String,
    /// How many times the pair is rebuilt with fresh seeds when replaying (search width).
    pub rebuilds: u32,
}

type Fail = (String, String);

/// All pairwise laws for (a, b) given several independently built copies of each.
fn check_pair(pa: &Pv, pb: &Pv, a: &[&Value], b: &[&Value], same_index: bool, rep: &mut RunReport) -> Option<Fail> {
    // a[0], b[0] are canonical builds; the rest are twins.
    let base = compare_cmp(a[0], b[0]);
    rep.evals += 1;
    let rev = compare_cmp(b[0], a[0]);
    let nan = has_nan(pa) || has_nan(pb);
    if same_index && !nan && !base.eq {
        return Some(("L1-not-reflexive".into(), format!("{} == itself is false", a[0].source())));
    }
    if base.eq != rev.eq {
        return Some(("L2-eq-asymmetric".into(), format!("{} == {} is {} but the reverse is {}", a[0].source(), b[0].source(), base.eq, rev.eq)));
    }
    if base.ne == base.eq {
        return Some(("L3-ne-not-negation".into(), format!("{} vs {}: == is {} and != is {}", a[0].source(), b[0].source(), base.eq, base.ne)));
    }
    if base.lt != rev.gt || base.gt != rev.lt {
        return Some(("L4-lt-gt-not-dual".into(), format!("{} vs {}: {} but reversed {}", a[0].source(), b[0].source(), base.show(), rev.show())));
    }
    if base.cmp.is_some() && (base.le != (base.lt || base.eq) || base.ge != (base.gt || base.eq)) {
        return Some(("L5-le-ge-inconsistent".into(), format!("{} vs {}: {}", a[0].source(), b[0].source(), base.show())));
    }
    if base.eq && (base.lt || base.gt) {
        return Some(("L6-equal-but-ordered".into(), format!("{} vs {}: {}", a[0].source(), b[0].source(), base.show())));
    }
    // L7 integer/float
    if let (Pv::Int(i), Pv::Float(fb)) = (pa, pb) {
        let fv = f64::from_bits(*fb);
        if i.unsigned_abs() <= (1u64 << 53) && fv == *i as f64 && !base.eq {
            return Some(("L7-int-float-unequal".into(), format!("{i} and {fv:?} denote the same number but compare unequal")));
        }
    }
    // L9: the other views agree
    let v = compare_value(a[0], b[0]);
    if v != base {
        return Some(("L9-views-disagree".into(), format!("{} vs {}: Value gives {} but ValueViewCmp gives {}", a[0].source(), b[0].source(), v.show(), base.show())));
    }
    let (co, cb) = (ValueCow::Owned(a[0].clone()), ValueCow::Borrowed(b[0]));
    let (co2, cb2) = (ValueCow::Owned(b[0].clone()), ValueCow::Borrowed(a[0]));
    if (co == cb) != base.eq || (cb2 == co2) != base.eq || (co == *b[0]) != base.eq {
        return Some(("L9-views-disagree".into(), format!("{} vs {}: ValueCow equality differs from ValueViewCmp ({})", a[0].source(), b[0].source(), base.eq)));
    }
    // L10: the heterogeneous impls (value vs. raw Rust scalar) and the ScalarCow-level impls give
    // the same answers as comparing the two values
    if let Some(f) = check_raw_views(pa, pb, a[0], b[0], &base) {
        return Some(f);
    }
    // L8: construction independence — every combination of independently built copies
    for (i, x) in a.iter().enumerate() {
        for (j, y) in b.iter().enumerate() {
            if i == 0 && j == 0 {
                continue;
            }
            let o = compare_cmp(x, y);
            rep.evals += 1;
            if o != base {
                return Some((
                    "L8-construction-dependent".into(),
                    format!(
                        "comparing {} with {} gives [{}] for one pair of independently built copies and [{}] for another",
                        pv_show(pa), pv_show(pb), base.show(), o.show()
                    ),
                ));
            }
        }
    }
    None
}

/// `a` compared with the raw Rust scalar that `pb` denotes, through every heterogeneous impl.
fn check_raw_views(pa: &Pv, pb: &Pv, a: &Value, b: &Value, base: &Out) -> Option<Fail> {
    let cow = ValueCow::Borrowed(a);
    let cmp = ValueViewCmp::new(a);
    let mut answers: Vec<(&'static str, bool)> = vec![];
    match pb {
        Pv::Int(i) => {
            answers.push(("Value == i64", *a == *i));
            answers.push(("ValueCow == i64", cow == *i));
            answers.push(("ValueViewCmp == i64", cmp == *i));
        }
        Pv::Float(bits) => {
            let f = f64::from_bits(*bits);
            answers.push(("Value == f64", *a == f));
            answers.push(("ValueCow == f64", cow == f));
            answers.push(("ValueViewCmp == f64", cmp == f));
        }
        Pv::Bool(x) => {
            answers.push(("Value == bool", *a == *x));
            answers.push(("ValueCow == bool", cow == *x));
            answers.push(("ValueViewCmp == bool", cmp == *x));
        }
        Pv::Str(x) => {
            let st: &str = x.as_str();
            let owned: String = x.clone();
            let ks = liquid::model::KString::from_ref(st);
            answers.push(("Value == str", *a == *st));
            answers.push(("Value == &str", *a == st));
            answers.push(("Value == String", *a == owned));
            answers.push(("Value == KString", *a == ks));
            answers.push(("ValueCow == str", cow == *st));
            answers.push(("ValueCow == String", cow == owned));
            answers.push(("ValueCow == KString", cow == ks));
            answers.push(("ValueViewCmp == str", cmp == *st));
            answers.push(("ValueViewCmp == String", cmp == owned));
            answers.push(("ValueViewCmp == KString", cmp == ks));
        }
        Pv::Date(y, m, d) => {
            let dt = liquid::model::Date::from_ymd(*y, *m, *d);
            answers.push(("Value == Date", *a == dt));
            answers.push(("ValueCow == Date", cow == dt));
            answers.push(("ValueViewCmp == Date", cmp == dt));
        }
        Pv::DateTime(x) => {
            let dt = liquid::model::DateTime::from_str(x).expect("pool datetime parses");
            answers.push(("Value == DateTime", *a == dt));
            answers.push(("ValueCow == DateTime", cow == dt));
            answers.push(("ValueViewCmp == DateTime", cmp == dt));
        }
        _ => {}
    }
    for (what, got) in answers {
        if got != base.eq {
            return Some(("L9-views-disagree".into(), format!("{} vs {}: `{what}` is {got} but comparing the two values gives {}", pv_show(pa), pv_show(pb), base.eq)));
        }
    }
    // scalar level
    if let (Some(sa), Some(sb)) = (a.as_scalar(), b.as_scalar()) {
        let eq = sa == sb;
        let pc = sa.partial_cmp(&sb);
        if eq != base.eq || pc != base.cmp {
            return Some((
                "L9-views-disagree".into(),
                format!("{} vs {}: ScalarCow gives ==:{eq} cmp:{pc:?} but the values give ==:{} cmp:{:?}", pv_show(pa), pv_show(pb), base.eq, base.cmp),
            ));
        }
        let (req, rpc): (Option<bool>, Option<Option<Ordering>>) = match pb {
            Pv::Int(i) => (Some(sa == *i), Some(sa.partial_cmp(i))),
            Pv::Float(bits) => {
                let f = f64::from_bits(*bits);
                (Some(sa == f), Some(sa.partial_cmp(&f)))
            }
            Pv::Bool(x) => (Some(sa == *x), Some(sa.partial_cmp(x))),
            Pv::Str(x) => {
                let owned: String = x.clone();
                // three impls: str, &str (eq only) and String
                if (sa == x.as_str()) != base.eq || (sa == owned) != base.eq || sa.partial_cmp(&owned) != base.cmp {
                    return Some((
                        "L9-views-disagree".into(),
                        format!("{} vs raw string {}: ScalarCow's &str/String impls disagree with the values (==:{} cmp:{:?})", pv_show(pa), pv_show(pb), base.eq, base.cmp),
                    ));
                }
                (Some(sa == *x.as_str()), Some(sa.partial_cmp(x.as_str())))
            }
            Pv::Date(y, m, d) => {
                let dt = liquid::model::Date::from_ymd(*y, *m, *d);
                (Some(sa == dt), Some(sa.partial_cmp(&dt)))
            }
            Pv::DateTime(x) => {
                let dt = liquid::model::DateTime::from_str(x).expect("pool datetime parses");
                (Some(sa == dt), Some(sa.partial_cmp(&dt)))
            }
            _ => (None, None),
        };
        if let (Some(e), Some(c)) = (req, rpc) {
            if e != base.eq || c != base.cmp {
                return Some((
                    "L9-views-disagree".into(),
                    format!("{} vs raw {}: ScalarCow's heterogeneous impl gives ==:{e} cmp:{c:?} but the values give ==:{} cmp:{:?}", pv_show(pa), pv_show(pb), base.eq, base.cmp),
                ));
            }
        }
    }
    None
}

fn pv_show(p: &Pv) -> String {
    match p {
        Pv::Nil => "nil".into(),
        Pv::Bool(b) => b.to_string(),
        Pv::Int(i) => i.to_string(),
        Pv::Float(b) => format!("{:?}", f64::from_bits(*b)),
        Pv::Str(x) => format!("{x:?}"),
        Pv::Date(y, m, d) => format!("date({y}-{m}-{d})"),
        Pv::DateTime(x) => format!("datetime({x})"),
        Pv::Empty => "empty".into(),
        Pv::Blank => "blank".into(),
        Pv::Array(a) => format!("[{}]", a.iter().map(pv_show).collect::<Vec<_>>().join(", ")),
        Pv::Object(e) => format!("{{{}}}", e.iter().map(|(k, v)| format!("{k}: {}", pv_show(v))).collect::<Vec<_>>().join(", ")),
    }
}

const OPS_TEMPLATE: &str = "{% if a == b %}1{% else %}0{% endif %}{% if a != b %}1{% else %}0{% endif %}{% if a < b %}1{% else %}0{% endif %}{% if a > b %}1{% else %}0{% endif %}{% if a <= b %}1{% else %}0{% endif %}{% if a >= b %}1{% else %}0{% endif %}{% case a %}{% when b %}1{% else %}0{% endcase %}";
const CONTAINS_TEMPLATE: &str = "{% if a contains b %}1{% else %}0{% endif %}";
/// `[a, b] | uniq` has one element exactly when uniq considers a and b equal: the laws of equality as
/// observed through the filter (digits: size of [a,b], [b,a], [a,a]).
const UNIQ_TEMPLATE: &str = "{% assign ab = a | concat: b | uniq %}{% assign ba = b | concat: a | uniq %}{% assign aa = a | concat: a | uniq %}{{ ab | size }}{{ ba | size }}{{ aa | size }}";
const SORT_TEMPLATE: &str = "{{ arr | sort | map: 'zid' | join: ',' }}|{{ arr | sort: 'v' | map: 'zid' | join: ',' }}|{{ arr | uniq | size }}|{{ arr | map: 'v' | uniq | size }}";

struct Templates {
    ops: liquid::Template,
    contains: liquid::Template,
    uniq: liquid::Template,
    sort: liquid::Template,
}

fn templates() -> Templates {
    let p = liquid::ParserBuilder::with_stdlib().build().expect("stdlib parser");
    Templates { ops: p.parse(OPS_TEMPLATE).expect("ops template"), contains: p.parse(CONTAINS_TEMPLATE).expect("contains template"), uniq: p.parse(UNIQ_TEMPLATE).expect("uniq template"), sort: p.parse(SORT_TEMPLATE).expect("sort template") }
}

fn render_pair(t: &liquid::Template, a: &Value, b: &Value) -> Outcome {
    let mut g = Object::new();
    g.insert("a".into(), a.clone());
    g.insert("b".into(), b.clone());
    crate::world::render_buffered(t, &g)
}

/// Template-level laws for one pair: branches agree with the API and across twins.
fn check_pair_templates(t: &Templates, pa: &Pv, pb: &Pv, a: &[&Value], b: &[&Value], rep: &mut RunReport) -> Option<Fail> {
    let base = compare_cmp(a[0], b[0]);
    // the six operators must take the branch the API outcome dictates; `case/when` (7th digit) only
    // has to be the same for every construction
    let want = format!("{}{}{}{}{}{}", base.eq as u8, base.ne as u8, base.lt as u8, base.gt as u8, base.le as u8, base.ge as u8);
    let mut first_contains: Option<Outcome> = None;
    let mut first_uniq: Option<Outcome> = None;
    let mut first_case: Option<u8> = None;
    for x in a {
        for y in b {
            let got = render_pair(&t.ops, x, y);
            rep.evals += 1;
            match &got {
                Outcome::Ok(bytes) if bytes.len() == 7 && &bytes[..6] == want.as_bytes() => {
                    match first_case {
                        None => first_case = Some(bytes[6]),
                        Some(c) if c != bytes[6] => {
                            return Some((
                                "L8-construction-dependent".into(),
                                format!("`case {} when {}` takes different branches for different constructions of the same values", pv_show(pa), pv_show(pb)),
                            ));
                        }
                        _ => {}
                    }
                }
                other => {
                    return Some((
                        "T1-template-branch-differs".into(),
                        format!("if/case on {} and {} took branches {} but the API says {} ({})", pv_show(pa), pv_show(pb), other.show(), want, base.show()),
                    ));
                }
            }
            let c = render_pair(&t.contains, x, y);
            rep.evals += 1;
            if c.is_panic() {
                return Some(("T1-panic".into(), format!("`a contains b` panicked for {} / {}: {}", pv_show(pa), pv_show(pb), c.show())));
            }
            // an array contains b exactly when one of its elements equals b (Liquid equality)
            if let (Some(arr), Outcome::Ok(bytes)) = (x.as_array(), &c) {
                let want = arr.values().any(|e| ValueViewCmp::new(e) == ValueViewCmp::new(*y));
                if bytes.as_slice() != if want { b"1" } else { b"0" } {
                    return Some((
                        "T1-template-branch-differs".into(),
                        format!("`{} contains {}` renders {} but element-wise equality says {}", pv_show(pa), pv_show(pb), c.show(), want),
                    ));
                }
            }
            // equality as observed through `uniq`: symmetric, reflexive (where == is), an integer and
            // a float denoting the same number collapse, and the same for every construction
            {
                let mut g = Object::new();
                g.insert("a".into(), Value::Array(vec![(*x).clone()]));
                g.insert("b".into(), Value::Array(vec![(*y).clone()]));
                let u = crate::world::render_buffered(&t.uniq, &g);
                rep.evals += 1;
                match &u {
                    Outcome::Ok(d) if d.len() == 3 => {
                        if d[0] != d[1] {
                            return Some(("U2-uniq-asymmetric".into(), format!("[{0}, {1}] | uniq has {2} element(s) but [{1}, {0}] | uniq has {3}", pv_show(pa), pv_show(pb), d[0] as char, d[1] as char)));
                        }
                        let refl = ValueViewCmp::new(*x) == ValueViewCmp::new(*x);
                        if refl && d[2] != b'1' {
                            return Some(("U1-uniq-not-reflexive".into(), format!("[{0}, {0}] | uniq has {1} elements although {0} == {0}", pv_show(pa), d[2] as char)));
                        }
                        if let (Pv::Int(i), Pv::Float(fb)) = (pa, pb) {
                            let fv = f64::from_bits(*fb);
                            if i.unsigned_abs() <= (1u64 << 53) && fv == *i as f64 && d[0] != b'1' {
                                return Some(("L7-int-float-unequal".into(), format!("{i} and {fv:?} denote the same number but [{i}, {fv:?}] | uniq keeps both")));
                            }
                        }
                    }
                    Outcome::Panic(m) => return Some(("T1-panic".into(), format!("uniq over {} / {} panicked: {m}", pv_show(pa), pv_show(pb)))),
                    _ => {}
                }
                match &first_uniq {
                    None => first_uniq = Some(u),
                    Some(f0) => {
                        if *f0 != u {
                            return Some(("L8-construction-dependent".into(), format!("`[{}, {}] | uniq` gives {} for one pair of builds and {} for another", pv_show(pa), pv_show(pb), f0.show(), u.show())));
                        }
                    }
                }
            }
            match &first_contains {
                None => first_contains = Some(c),
                Some(f0) => {
                    if *f0 != c {
                        return Some((
                            "L8-construction-dependent".into(),
                            format!("`{} contains {}` gives {} for one pair of builds and {} for another", pv_show(pa), pv_show(pb), f0.show(), c.show()),
                        ));
                    }
                }
            }
        }
    }
    None
}

/// Arrays of 2..40 multi-key objects built twice: sort / uniq must agree structurally.
fn check_sort(t: &Templates, rng: &mut Rng, rep: &mut RunReport) -> Option<(Fail, Pv)> {
    let n = 2 + rng.below(39);
    let nkeys = 2 + rng.below(5);
    let distinct_vals = 1 + rng.below(4);
    let mut elems = vec![];
    for id in 0..n {
        let mut e: Vec<(String, Pv)> = vec![];
        // shared payload with few distinct contents, so that many elements are equal-but-for-id
        let payload = rng.below(distinct_vals) as i64;
        let mut v: Vec<(String, Pv)> = vec![];
        for k in 0..nkeys {
            v.push((format!("k{k}"), Pv::Int(if k == nkeys - 1 { payload } else { 1 })));
        }
        e.push(("zid".into(), Pv::Int(id as i64)));
        e.push(("v".into(), Pv::Object(v)));
        for k in 0..nkeys {
            e.push((format!("w{k}"), Pv::Int(payload)));
        }
        elems.push(Pv::Object(e));
    }
    let arr = Pv::Array(elems);
    let mut st = BuildStats::default();
    let canon = build(&arr, &mut None, &mut st);
    let mut outs = vec![];
    for i in 0..3 {
        let v = if i == 0 { canon.clone() } else { build(&arr, &mut Some(rng), &mut st) };
        let mut g = Object::new();
        g.insert("arr".into(), v);
        let o = crate::world::render_buffered(&t.sort, &g);
        rep.evals += 1;
        if o.is_panic() {
            return Some((("T2-sort-panic".into(), format!("sort/uniq over {n} multi-key objects panicked: {}", o.show())), arr));
        }
        outs.push(o);
    }
    rep.bump("sort_arrays", 1);
    if n > 20 {
        rep.bump("sort_arrays_over_20", 1);
    }
    if outs[1] != outs[0] || outs[2] != outs[0] {
        return Some((
            (
                "L8-construction-dependent".into(),
                format!("sort/uniq over an array of {n} multi-key objects gives {} for one construction and {} / {} for others", outs[0].show(), outs[1].show(), outs[2].show()),
            ),
            arr,
        ));
    }
    None
}

fn check_scn(scn: &Scn, rep: &mut RunReport) -> Option<Fail> {
    crate::sched::set_hash_stream(Some(scn.hash_base));
    let mut rng = Rng::new(scn.construction_seed);
    let t = templates();
    if scn.template.as_deref() == Some("sort") {
        // the array is in `a`
        let mut st = BuildStats::default();
        let canon = build(&scn.a, &mut None, &mut st);
        let mut first: Option<Outcome> = None;
        for i in 0..scn.rebuilds.max(3) {
            let v = if i == 0 { canon.clone() } else { build(&scn.a, &mut Some(&mut rng), &mut st) };
            let mut g = Object::new();
            g.insert("arr".into(), v);
            let o = crate::world::render_buffered(&t.sort, &g);
            if o.is_panic() {
                return Some(("T2-sort-panic".into(), o.show()));
            }
            match &first {
                None => first = Some(o),
                Some(f0) => {
                    if *f0 != o {
                        return Some(("L8-construction-dependent".into(), format!("sort/uniq gives {} for one construction and {} for another", f0.show(), o.show())));
                    }
                }
            }
        }
        return None;
    }
    let mut st = BuildStats::default();
    let ca = build(&scn.a, &mut None, &mut st);
    let cb = build(&scn.b, &mut None, &mut st);
    for _ in 0..scn.rebuilds.max(1) {
        let ta: Vec<Value> = (0..2).map(|_| build(&scn.a, &mut Some(&mut rng), &mut st)).collect();
        let tb: Vec<Value> = (0..2).map(|_| build(&scn.b, &mut Some(&mut rng), &mut st)).collect();
        let av: Vec<&Value> = std::iter::once(&ca).chain(ta.iter()).collect();
        let bv: Vec<&Value> = std::iter::once(&cb).chain(tb.iter()).collect();
        if let Some(f) = check_pair(&scn.a, &scn.b, &av, &bv, scn.a == scn.b, rep) {
            return Some(f);
        }
        if let Some(f) = check_pair_templates(&t, &scn.a, &scn.b, &av, &bv, rep) {
            return Some(f);
        }
    }
    None
}

impl Engine for C11 {
    fn id(&self) -> &'static str {
        "C11"
    }
    fn level(&self) -> &'static str {
        "exploration"
    }
    fn runs(&self, quick: bool) -> u64 {
        if quick {
            3_000
        } else {
            60_000
        }
    }

    fn run(&self, master: u64, index: u64, quick: bool) -> RunReport {
        let _ = quick;
        let mut rep = RunReport::default();
        let seed = run_seed(master, "C11", index);
        let mut rng = Rng::new(seed);
        let hash_base = rng.next_u64();
        let construction_seed = rng.next_u64();
        let mut crng = Rng::new(construction_seed);
        let pool = pool();
        let mut st = BuildStats::default();
        let seeds_before = crate::sched::hash_seeds_drawn();
        // a copy built under one fixed seed stream that is the same in every run and process:
        // agreement with it makes all runs agree with each other (seed independence across runs)
        crate::sched::set_hash_stream(Some(0x5EED_F1ED));
        let fixed: Vec<Value> = pool.iter().map(|p| build(p, &mut None, &mut st)).collect();
        crate::sched::set_hash_stream(Some(hash_base));
        // canonical copies (fixed order, no churn) and two independent twins of every value
        let canon: Vec<Value> = pool.iter().map(|p| build(p, &mut None, &mut st)).collect();
        let tw1: Vec<Value> = pool.iter().map(|p| build(p, &mut Some(&mut crng), &mut st)).collect();
        let tw2: Vec<Value> = pool.iter().map(|p| build(p, &mut Some(&mut crng), &mut st)).collect();
        let mut table = Fnv::new();
        let mut fail: Option<(Fail, Pv, Pv, Option<String>)> = None;
        'pairs: for i in 0..pool.len() {
            for j in 0..pool.len() {
                let a = [&canon[i], &tw1[i], &tw2[i], &fixed[i]];
                let b = [&canon[j], &tw1[j], &tw2[j], &fixed[j]];
                table.u64(compare_cmp(a[0], b[0]).code());
                if let Some(f) = check_pair(&pool[i], &pool[j], &a, &b, i == j, &mut rep) {
                    fail = Some((f, pool[i].clone(), pool[j].clone(), None));
                    break 'pairs;
                }
                if multi_key(&pool[i]) || multi_key(&pool[j]) {
                    rep.bump("multi_key_pairs_checked", 1);
                }
            }
        }
        rep.bump("pairs_checked", (pool.len() * pool.len()) as u64);
        // one run = one distinct seed assignment + insertion history for all multi-key objects
        rep.distinct.push(Fnv::new().u64(hash_base).u64(construction_seed).finish());
        // the outcome table itself must not depend on the run (seed independence across runs)
        let table_digest = table.finish();
        // template level: a seeded sample of pairs (all multi-key pairs are favoured) + sort arrays
        if fail.is_none() {
            let t = templates();
            let npairs = 160;
            for _ in 0..npairs {
                let (i, j) = if crng.chance(1, 2) {
                    let mk: Vec<usize> = (0..pool.len()).filter(|&i| multi_key(&pool[i])).collect();
                    (*crng.pick(&mk), *crng.pick(&mk))
                } else {
                    (crng.below(pool.len()), crng.below(pool.len()))
                };
                let a = [&canon[i], &tw1[i], &tw2[i]];
                let b = [&canon[j], &tw1[j], &tw2[j]];
                if let Some(f) = check_pair_templates(&t, &pool[i], &pool[j], &a, &b, &mut rep) {
                    fail = Some((f, pool[i].clone(), pool[j].clone(), Some("ops".into())));
                    break;
                }
            }
            if fail.is_none() {
                for _ in 0..6 {
                    if let Some((f, arr)) = check_sort(&t, &mut crng, &mut rep) {
                        fail = Some((f, arr, Pv::Nil, Some("sort".into())));
                        break;
                    }
                }
            }
        }
        rep.bump("fault.hash.seed", crate::sched::hash_seeds_drawn() - seeds_before);
        rep.bump("twin.permuted_insertion", st.permuted);
        rep.bump("twin.insert_then_remove", st.churned);
        rep.bump("twin.serde_roundtrip", st.roundtrip);
        rep.bump("twin.clone_or_to_value", st.cloned);
        rep.logical_time = crate::sched::hash_seeds_drawn() - seeds_before;
        if let Some(((class, detail), a, b, template)) = fail {
            let scn = Scn { construction_seed, hash_base, a, b, template, class: class.clone(), rebuilds: 64 };
            let sig = format!("{class}:{}", match (&scn.a, &scn.b) {
                (Pv::Object(_), Pv::Object(_)) => "object×object",
                (Pv::Array(_), _) | (_, Pv::Array(_)) => "array",
                _ => "scalar",
            });
            rep.violations.push(Violation { signature: sig, class, detail, scenario: serde_json::to_value(&scn).unwrap() });
        }
        if index < 2 {
            rep.sample = Some(json!({
                "pool_size": pool.len(),
                "example_pair": [pv_show(&pool[pool.len() - 20]), pv_show(&pool[pool.len() - 19])],
                "example_outcome": compare_cmp(&tw1[pool.len() - 20], &tw2[pool.len() - 19]).show(),
                "twins": {"permuted": st.permuted, "churned": st.churned, "serde_roundtrip": st.roundtrip},
                "outcome_table_digest": format!("{table_digest:016x}"),
            }));
        }
        // NB: the digest contains the outcome table of this run
        let mut h = Fnv::new();
        h.u64(table_digest).u64(rep.evals).u64(rep.violations.len() as u64).u64(st.permuted).u64(st.churned);
        rep.digest = h.finish();
        rep
    }

    fn replay(&self, scenario: &Json) -> Result<Option<Violation>, String> {
        let scn: Scn = serde_json::from_value(scenario.clone()).map_err(|e| format!("bad C11 scenario: {e}"))?;
        let mut rep = RunReport::default();
        Ok(check_scn(&scn, &mut rep).map(|(class, detail)| Violation { signature: class.clone(), class, detail, scenario: scenario.clone() }))
    }

    fn minimise(&self, v: &Violation, deadline: Instant) -> Violation {
        let Ok(scn) = serde_json::from_value::<Scn>(v.scenario.clone()) else { return v.clone() };
        let class = v.class.clone();
        let fails = |s: &Scn| {
            let mut rep = RunReport::default();
            matches!(check_scn(s, &mut rep), Some((c, _)) if c == class)
        };
        fn shrink_pv(p: &Pv) -> Vec<Pv> {
            match p {
                Pv::Array(a) => {
                    let mut out = vec![];
                    for i in 0..a.len() {
                        let mut c = a.clone();
                        c.remove(i);
                        out.push(Pv::Array(c));
                    }
                    for i in 0..a.len() {
                        for s in shrink_pv(&a[i]) {
                            let mut c = a.clone();
                            c[i] = s;
                            out.push(Pv::Array(c));
                        }
                    }
                    out
                }
                Pv::Object(e) => {
                    let mut out = vec![];
                    for i in 0..e.len() {
                        let mut c = e.clone();
                        c.remove(i);
                        out.push(Pv::Object(c));
                    }
                    for i in 0..e.len() {
                        for s in shrink_pv(&e[i].1) {
                            let mut c = e.clone();
                            c[i].1 = s;
                            out.push(Pv::Object(c));
                        }
                    }
                    out
                }
                _ => vec![],
            }
        }
        let candidates = |s: &Scn| -> Vec<Scn> {
            let mut out = vec![];
            if s.template.as_deref() == Some("sort") {
                for a in shrink_pv(&s.a) {
                    let mut c = s.clone();
                    c.a = a;
                    out.push(c);
                }
                return out;
            }
            // shrink both sides alike first (keeps them equal-by-content), then each side
            if s.a == s.b {
                for a in shrink_pv(&s.a) {
                    let mut c = s.clone();
                    c.a = a.clone();
                    c.b = a;
                    out.push(c);
                }
            }
            for a in shrink_pv(&s.a) {
                let mut c = s.clone();
                c.a = a;
                out.push(c);
            }
            for b in shrink_pv(&s.b) {
                let mut c = s.clone();
                c.b = b;
                out.push(c);
            }
            out
        };
        let cur = crate::engine::minimise_greedy(scn, candidates, fails, deadline);
        let mut rep = RunReport::default();
        let detail = check_scn(&cur, &mut rep).map(|(_, d)| d).unwrap_or_else(|| v.detail.clone());
        Violation { class: v.class.clone(), signature: v.signature.clone(), detail, scenario: serde_json::to_value(&cur).unwrap() }
    }

    fn rule(&self) -> String {
        "one run = one assignment of per-object hash seeds (hook H2) and one insertion history per constructed object: every pool value (79 values: nil, booleans, integers incl. 2^53 and i64 bounds, floats incl. +-0.0, infinities, NaN, strings, dates, date-times incl. one instant in two offsets, empty/blank, arrays and objects nested two deep with 1/2/4/6 keys) is built canonically and twice more independently (fresh seeds, permuted insertion order, optional insert-then-remove churn, clone/to_value/serde round trip); ALL ordered pairs of the pool are checked for laws L1-L7, view agreement (Value, ValueCow, ValueViewCmp, ScalarCow and the heterogeneous impls against raw i64/f64/bool/str/String/KString/Date/DateTime) and construction independence over all 16 combinations of copies (one copy is built under a seed stream that is identical in every run, which ties all runs together); a seeded sample of pairs goes through if/case/contains templates and arrays of 2-40 multi-key objects through sort/uniq. distinct_nontrivial counts distinct seed assignments + insertion histories (one per run; each covers every pair that involves an object with >= 2 keys, counter multi_key_pairs_checked); the scalar pairs are a finite table repeated unchanged in every run and add nothing beyond completeness over the pool".into()
    }
    fn assumptions(&self) -> Vec<String> {
        vec![
            "with the verif-hooks feature Object hashes with SipHash seeded by the simulator instead of std RandomState; iteration order is therefore a function of (seed, insertion history), as in production, but chosen by the harness".into(),
            "cross-process independence is represented by seed independence (the process only contributes different random seeds)".into(),
            "integer/float equality is claimed for |x| <= 2^53 only, as the property says".into(),
        ]
    }
    fn components(&self) -> Json {
        json!({"real": ["value_eq / value_cmp / scalar_eq / scalar_cmp and all PartialEq/PartialOrd impls", "Object (std HashMap) with per-instance seeds", "if / case / contains / sort / uniq / map"], "stub": ["hash-seed source (SimHashState via hook H2)"]})
    }
    fn exhaustive_note(&self, _quick: bool) -> Option<String> {
        Some("exhaustive over all ordered pairs of the 64-value pool in every run; seed assignments and insertion histories are sampled".into())
    }
    fn required_probes(&self) -> Vec<&'static str> {
        vec!["fault.hash.seed", "twin.permuted_insertion", "twin.insert_then_remove", "twin.serde_roundtrip", "sort_arrays_over_20"]
    }
}

//! C09 — rendering is repeatable: no state survives a render.
//!
//! Histories of render calls (buffered, streamed, aborted midway by a sink fault or by a
//! data-triggered error) on one long-lived parser and its templates; every call is compared with
//! the same call on a freshly built parser with a freshly parsed template (amnesiac oracle).

use crate::calls::{exec, Call, Mode};
use crate::data::deep_eq_obj;
use crate::engine::{Engine, RunReport, Violation};
use crate::engines::c10::{gen_world, hard_kinds};
use crate::gen;
use crate::prng::{run_seed, Fnv, Rng};
use crate::scenario::WorldSpec;
use crate::seams::{FaultPlan, SimGlobals};
use crate::world::{self, Outcome, PolicyKind};
use serde::{Deserialize, Serialize};
use serde_json::{json, Value as Json};
use std::time::Instant;

pub struct C09;

#[derive(Clone, Debug, PartialEq, Eq, Serialize, Deserialize)]
pub enum Op {
    Call(Call),
    /// Parse template t again on the shared parser and use the new copy from now on.
    Reparse(usize),
    /// Continue with a clone of the parser (shares the partial store).
    CloneParser,
    /// Parse a broken text on the shared parser: must fail exactly as on a fresh parser.
    ParseCorrupt(usize),
}

#[derive(Clone, Debug, Serialize, Deserialize)]
pub struct Scn {
    pub world: WorldSpec,
    pub policy: PolicyKind,
    /// Histories executed one after the other on ONE fresh thread, each on its own fresh shared
    /// parser. Usually a single history; more than one only when the violation needs state that an
    /// earlier history left behind in the thread (thread-local storage).
    pub histories: Vec<Vec<Op>>,
    pub class: String,
}

/// Run `f` on a brand-new OS thread (clean thread-local state).
pub fn on_fresh_thread<R: Send>(f: impl FnOnce() -> R + Send) -> R {
    std::thread::scope(|s| {
        std::thread::Builder::new()
            .stack_size(32 << 20)
            .spawn_scoped(s, f)
            .expect("spawn thread")
            .join()
            .unwrap_or_else(|p| std::panic::resume_unwind(p))
    })
}

/// The amnesiac oracle: fresh parser, freshly parsed template, fresh thread.
pub fn clean_expected(spec: &WorldSpec, policy: PolicyKind, srcs: &[String], globals: &[SimGlobals], call: &Call) -> Result<Outcome, String> {
    on_fresh_thread(|| {
        crate::sched::set_hash_stream(Some(spec.hash_base ^ 0xBEEF));
        fresh_expected(spec, policy, srcs, globals, call)
    })
}

pub fn pick_policy(rng: &mut Rng) -> PolicyKind {
    match rng.below(4) {
        0 => PolicyKind::Eager,
        1 => PolicyKind::OnDemand,
        _ => PolicyKind::Lazy,
    }
}

/// Result of `call` on a fresh parser with a freshly parsed template.
pub fn fresh_expected(spec: &WorldSpec, policy: PolicyKind, srcs: &[String], globals: &[SimGlobals], call: &Call) -> Result<Outcome, String> {
    let w = spec.build(policy)?;
    let t = world::parse(&w.parser, &srcs[call.t])?;
    // exec indexes templates by call.t: give it a one-element view
    let c = Call { t: 0, d: call.d, mode: call.mode.clone() };
    Ok(exec(&c, std::slice::from_ref(&t), globals).0)
}

/// The call alphabet of a world: every (template, data) x {buffered, streamed, one sink fault}.
pub fn alphabet(spec: &WorldSpec, policy: PolicyKind, srcs: &[String], globals: &[SimGlobals], rng: &mut Rng) -> Result<Vec<(Call, Outcome)>, String> {
    let mut letters = vec![];
    let kinds = hard_kinds(rng);
    for t in 0..spec.templates.len() {
        for d in 0..spec.datas.len() {
            let b = Call { t, d, mode: Mode::Buffered };
            let eb = clean_expected(spec, policy, srcs, globals, &b)?;
            letters.push((b, eb));
            let s = Call { t, d, mode: Mode::Streamed };
            let es = clean_expected(spec, policy, srcs, globals, &s)?;
            // number of writes of the fault-free run, to place the fault inside it
            let w = on_fresh_thread(|| -> Result<usize, String> {
                let wd = spec.build(policy)?;
                let tt = world::parse(&wd.parser, &srcs[t])?;
                let g: &dyn liquid::ObjectView = &globals[d];
                Ok(world::render_streamed(&tt, g, &FaultPlan::none()).1.logical_calls)
            })?;
            letters.push((s, es));
            if w > 0 {
                let plan = FaultPlan::hard(1 + rng.below(w), *rng.pick(&kinds), rng.chance(1, 2));
                let f = Call { t, d, mode: Mode::Faulted(plan) };
                let ef = clean_expected(spec, policy, srcs, globals, &f)?;
                letters.push((f, ef));
            }
        }
    }
    Ok(letters)
}

struct Subject {
    parser: liquid::Parser,
    templates: Vec<liquid::Template>,
}

fn new_subject(spec: &WorldSpec, policy: PolicyKind, srcs: &[String]) -> Result<Subject, String> {
    let w = spec.build(policy)?;
    let templates = srcs.iter().map(|s| world::parse(&w.parser, s)).collect::<Result<Vec<_>, _>>()?;
    Ok(Subject { parser: w.parser, templates })
}

/// Run a history on a fresh shared parser. `expect` gives the amnesiac result of a call.
fn run_history(
    spec: &WorldSpec,
    policy: PolicyKind,
    srcs: &[String],
    globals: &[SimGlobals],
    pristine: &[liquid::Object],
    history: &[Op],
    expect: &mut dyn FnMut(&Call) -> Result<Outcome, String>,
    rep: &mut RunReport,
) -> Result<Option<(usize, String, String)>, String> {
    let mut subj = new_subject(spec, policy, srcs)?;
    for (i, op) in history.iter().enumerate() {
        match op {
            Op::Call(c) => {
                let (got, st) = exec(c, &subj.templates, globals);
                rep.evals += 1;
                rep.logical_time += st.sink_calls + 1;
                if st.hard_fired {
                    rep.bump("fault.sink.hard", 1);
                }
                let want = expect(c)?;
                if got.is_budget() || want.is_budget() {
                    rep.bump("discarded_budget", 1);
                    return Ok(None);
                }
                if let Outcome::Panic(m) = &got {
                    if !want.is_panic() {
                        return Ok(Some((i, "I3-panic".into(), format!("call #{i} {} panicked: {m}", c.show()))));
                    }
                }
                if got != want {
                    return Ok(Some((
                        i,
                        "I1-result-differs".into(),
                        format!("call #{i} {} on the shared parser gave {} but a fresh parser gives {}", c.show(), got.show(), want.show()),
                    )));
                }
                if got.is_err() && matches!(c.mode, Mode::Buffered | Mode::Streamed) {
                    rep.bump("fault.render.abort", 1);
                }
            }
            Op::Reparse(t) => {
                subj.templates[*t] = world::parse(&subj.parser, &srcs[*t])?;
                rep.bump("op.reparse", 1);
            }
            Op::CloneParser => {
                subj.parser = subj.parser.clone();
                rep.bump("op.clone_parser", 1);
            }
            Op::ParseCorrupt(k) => {
                let text = gen::CORRUPT[*k % gen::CORRUPT.len()];
                let got = world::parse(&subj.parser, text).err();
                let want = spec.build(policy).and_then(|w| Ok(world::parse(&w.parser, text).err()))?;
                rep.bump("op.parse_corrupt", 1);
                if got != want {
                    return Ok(Some((
                        i,
                        "I1-result-differs".into(),
                        format!("op #{i}: parsing the broken text {text:?} on the shared parser gave {got:?} but a fresh parser gives {want:?}"),
                    )));
                }
            }
        }
    }
    for (d, g) in globals.iter().enumerate() {
        if !deep_eq_obj(&g.inner, &pristine[d]) {
            return Ok(Some((history.len(), "I2-data-modified".into(), format!("data object d{d} was modified by the history"))));
        }
    }
    Ok(None)
}

fn history_show(h: &[Op]) -> Vec<String> {
    h.iter()
        .map(|o| match o {
            Op::Call(c) => c.show(),
            Op::Reparse(t) => format!("reparse(t{t})"),
            Op::CloneParser => "clone_parser".into(),
            Op::ParseCorrupt(k) => format!("parse(corrupt#{k})"),
        })
        .collect()
}

/// Run several histories one after the other on the current thread. Returns (history index,
/// op index, class, detail) of the first violation.
fn run_histories(
    spec: &WorldSpec,
    policy: PolicyKind,
    srcs: &[String],
    globals: &[SimGlobals],
    pristine: &[liquid::Object],
    histories: &[Vec<Op>],
    expect: &mut dyn FnMut(&Call) -> Result<Outcome, String>,
    rep: &mut RunReport,
) -> Result<Option<(usize, usize, String, String)>, String> {
    for (hi, h) in histories.iter().enumerate() {
        if let Some((at, class, detail)) = run_history(spec, policy, srcs, globals, pristine, h, expect, rep)? {
            let detail = if histories.len() > 1 { format!("history #{hi} (of {} run on one thread): {detail}", histories.len()) } else { detail };
            return Ok(Some((hi, at, class, detail)));
        }
    }
    Ok(None)
}

/// Execute a scenario from scratch: one fresh thread for its histories, clean-thread oracle.
fn check_scn(scn: &Scn, rep: &mut RunReport) -> Result<Option<(usize, usize, String, String)>, String> {
    let srcs = scn.world.sources();
    let globals = scn.world.globals();
    let pristine: Vec<liquid::Object> = globals.iter().map(|g| g.inner.clone()).collect();
    // expectations first (each on its own fresh thread), memoised per distinct call
    let mut memo: Vec<(Call, Outcome)> = vec![];
    for h in &scn.histories {
        for op in h {
            if let Op::Call(c) = op {
                if !memo.iter().any(|(k, _)| k == c) {
                    let e = clean_expected(&scn.world, scn.policy, &srcs, &globals, c)?;
                    memo.push((c.clone(), e));
                }
            }
        }
    }
    let mut local = RunReport::default();
    let r = on_fresh_thread(|| {
        crate::sched::set_hash_stream(Some(scn.world.hash_base ^ 0xBEEF));
        let mut expect = |c: &Call| memo.iter().find(|(k, _)| k == c).map(|(_, e)| e.clone()).ok_or_else(|| "no expectation".to_string());
        run_histories(&scn.world, scn.policy, &srcs, &globals, &pristine, &scn.histories, &mut expect, &mut local)
    });
    rep.evals += local.evals;
    r
}

impl Engine for C09 {
    fn id(&self) -> &'static str {
        "C09"
    }
    fn level(&self) -> &'static str {
        "exploration"
    }
    fn runs(&self, quick: bool) -> u64 {
        if quick {
            4_000
        } else {
            40_000
        }
    }

    fn run(&self, master: u64, index: u64, quick: bool) -> RunReport {
        let mut rep = RunReport::default();
        let mut rng = Rng::new(run_seed(master, "C09", index));
        let nt = 2 + rng.below(2);
        let nd = 2 + rng.below(2);
        let spec = gen_world(&mut rng, nt, nd, true, true);
        let policy = pick_policy(&mut rng);
        let srcs = spec.sources();
        let globals = spec.globals();
        let pristine: Vec<liquid::Object> = globals.iter().map(|g| g.inner.clone()).collect();
        let mut digest = Fnv::new();
        digest.u64(spec.hash());
        let finish = |mut rep: RunReport, digest: Fnv| {
            let mut h = digest;
            h.u64(rep.evals).u64(rep.violations.len() as u64);
            rep.digest = h.finish();
            rep
        };
        let letters = match alphabet(&spec, policy, &srcs, &globals, &mut rng) {
            Ok(l) => l,
            Err(_) => {
                rep.bump("discarded_build_or_parse", 1);
                return finish(rep, digest);
            }
        };
        if letters.iter().any(|(_, e)| e.is_panic()) {
            rep.bump("discarded_baseline_panic", 1);
            return finish(rep, digest);
        }
        for (_, e) in &letters {
            e.digest(&mut digest);
        }
        rep.bump("letters", letters.len() as u64);
        rep.bump("letters.expected_err", letters.iter().filter(|(_, e)| e.is_err()).count() as u64);
        let lookup = |c: &Call| -> Result<Outcome, String> {
            letters.iter().find(|(l, _)| l == c).map(|(_, e)| e.clone()).ok_or_else(|| "letter without expectation".to_string())
        };
        let a = letters.len();
        // every history this run executed on its thread, in order (needed to isolate violations that
        // depend on what an earlier history left behind in thread-local storage)
        let executed: std::cell::RefCell<Vec<Vec<Op>>> = std::cell::RefCell::new(vec![]);
        let report = |hist: Vec<Op>, at: usize, class: String, detail: String, rep: &mut RunReport| {
            let mut last = hist[..(at + 1).min(hist.len())].to_vec();
            let _ = &mut last;
            let ex = executed.borrow();
            // smallest suffix of the executed histories (ending with the failing one) that reproduces
            // the violation class from scratch on a fresh thread; usually just the failing history
            let mut take = 0usize;
            let mut found: Option<Scn> = None;
            loop {
                let start = ex.len().saturating_sub(take);
                let mut hs: Vec<Vec<Op>> = ex[start..].to_vec();
                hs.push(last.clone());
                let cand = Scn { world: spec.clone(), policy, histories: hs, class: class.clone() };
                let mut scratch = RunReport::default();
                if matches!(check_scn(&cand, &mut scratch), Ok(Some((_, _, c, _))) if c == class) {
                    found = Some(cand);
                    break;
                }
                if start == 0 {
                    break;
                }
                take = if take == 0 { 1 } else { take * 2 };
            }
            if found.as_ref().map(|f| f.histories.len() > 1).unwrap_or(false) {
                rep.bump("violations_needing_thread_carried_state", 1);
            }
            let scn = found.unwrap_or_else(|| {
                let mut hs: Vec<Vec<Op>> = ex.clone();
                hs.push(last.clone());
                Scn { world: spec.clone(), policy, histories: hs, class: class.clone() }
            });
            rep.violations.push(Violation { signature: class.clone(), class, detail, scenario: serde_json::to_value(&scn).unwrap() });
        };
        let mut histories = 0u64;
        // all histories of length 1 and 2 over the full alphabet
        'exh: {
            for i in 0..a {
                for j in std::iter::once(None).chain((0..a).map(Some)) {
                    let mut h = vec![Op::Call(letters[i].0.clone())];
                    if let Some(j) = j {
                        h.push(Op::Call(letters[j].0.clone()));
                    }
                    histories += 1;
                    match run_history(&spec, policy, &srcs, &globals, &pristine, &h, &mut |c| lookup(c), &mut rep) {
                        Ok(Some((at, class, detail))) => {
                            report(h, at, class, detail, &mut rep);
                            break 'exh;
                        }
                        Ok(None) => executed.borrow_mut().push(h),
                        Err(_) => {
                            rep.bump("discarded_build_or_parse", 1);
                            break 'exh;
                        }
                    }
                }
            }
            // all histories of length 3 over a sub-alphabet (whole alphabet when small enough)
            // quick favours many worlds over deep enumeration per world (leaks need the right
            // template shape far more often than a long history)
            let cap = if quick { 5 } else { 12 };
            let mut sub: Vec<usize> = (0..a).collect();
            rng.shuffle(&mut sub);
            sub.truncate(cap);
            if a <= cap {
                rep.bump("worlds_with_full_k3", 1);
            }
            for &i in &sub {
                for &j in &sub {
                    for &k in &sub {
                        let h = vec![Op::Call(letters[i].0.clone()), Op::Call(letters[j].0.clone()), Op::Call(letters[k].0.clone())];
                        histories += 1;
                        match run_history(&spec, policy, &srcs, &globals, &pristine, &h, &mut |c| lookup(c), &mut rep) {
                            Ok(Some((at, class, detail))) => {
                                report(h, at, class, detail, &mut rep);
                                break 'exh;
                            }
                            Ok(None) => executed.borrow_mut().push(h),
                            Err(_) => break 'exh,
                        }
                    }
                }
            }
            // seeded long histories with re-parse / clone operations and a final sweep
            let n_long = if quick { 8 } else { 80 };
            for _ in 0..n_long {
                let k = 4 + rng.below(3);
                let mut h = vec![];
                for _ in 0..k {
                    match rng.below(10) {
                        0 => h.push(Op::Reparse(rng.below(spec.templates.len()))),
                        1 => h.push(Op::CloneParser),
                        2 => h.push(Op::ParseCorrupt(rng.below(gen::CORRUPT.len()))),
                        _ => {}
                    }
                    h.push(Op::Call(letters[rng.below(a)].0.clone()));
                }
                // I4: final sweep of every fault-free letter, once more, then on a clone
                for (l, _) in letters.iter().filter(|(l, _)| !matches!(l.mode, Mode::Faulted(_))) {
                    h.push(Op::Call(l.clone()));
                }
                h.push(Op::CloneParser);
                for t in 0..spec.templates.len() {
                    h.push(Op::Reparse(t));
                }
                for (l, _) in letters.iter().filter(|(l, _)| matches!(l.mode, Mode::Buffered)) {
                    h.push(Op::Call(l.clone()));
                }
                histories += 1;
                match run_history(&spec, policy, &srcs, &globals, &pristine, &h, &mut |c| lookup(c), &mut rep) {
                    Ok(Some((at, class, detail))) => {
                        report(h, at, class, detail, &mut rep);
                        break 'exh;
                    }
                    Ok(None) => executed.borrow_mut().push(h),
                    Err(_) => break 'exh,
                }
            }
        }
        // fresh-process oracle for a few letters: evaluated again here (this process has by now
        // rendered this world's histories and those of earlier runs) and in a brand-new process
        if rep.violations.is_empty() && !letters.is_empty() {
            let mut picks: Vec<usize> = (0..a).collect();
            rng.shuffle(&mut picks);
            picks.truncate(3);
            let calls: Vec<Call> = picks.iter().map(|&i| letters[i].0.clone()).collect();
            if let Some(fresh) = fresh_process_outcomes(&spec, policy, &calls) {
                rep.bump("fresh_process_oracle.calls", calls.len() as u64);
                for (c, f) in calls.iter().zip(fresh.iter()) {
                    let Some(f) = f else { continue };
                    let Ok(here) = clean_expected(&spec, policy, &srcs, &globals, c) else { continue };
                    if f.is_budget() || here.is_budget() || f.is_panic() {
                        continue;
                    }
                    if *f != here {
                        let scn = Scn { world: spec.clone(), policy, histories: vec![vec![Op::Call(c.clone())]], class: "I1-result-differs".into() };
                        rep.violations.push(Violation {
                            signature: "I1-result-differs".into(),
                            class: "I1-result-differs".into(),
                            detail: format!(
                                "{} on a fresh parser gives {} in this process (which has rendered other things before) but {} in a brand-new process: state survives in the process",
                                c.show(), here.show(), f.show()
                            ),
                            scenario: serde_json::to_value(&scn).unwrap(),
                        });
                        break;
                    }
                }
            } else {
                rep.bump("fresh_process_oracle.unavailable", 1);
            }
        }
        rep.bump("histories", histories);
        rep.bump(&format!("policy.{policy:?}"), 1);
        let stateful = spec.templates.iter().any(|t| {
            let mut c = std::collections::BTreeMap::new();
            gen::constructs(t, &mut c);
            ["cycle", "increment", "decrement", "ifchanged", "break", "continue", "assign", "capture", "include", "render"].iter().any(|k| c.contains_key(k))
        });
        if stateful && histories > 1 {
            rep.distinct.push(Fnv::new().u64(spec.hash()).u64(policy as u64).finish());
        }
        if index < 2 {
            rep.sample = Some(json!({
                "templates": spec.template_src, "partials": spec.partial_src,
                "data": spec.datas.iter().map(|d| d.show()).collect::<Vec<_>>(),
                "policy": format!("{policy:?}"),
                "alphabet": letters.iter().map(|(l, e)| format!("{} => {}", l.show(), e.show())).collect::<Vec<_>>(),
                "histories_run": histories,
            }));
        }
        finish(rep, digest)
    }

    fn replay(&self, scenario: &Json) -> Result<Option<Violation>, String> {
        let scn: Scn = serde_json::from_value(scenario.clone()).map_err(|e| format!("bad C09 scenario: {e}"))?;
        let mut rep = RunReport::default();
        Ok(check_scn(&scn, &mut rep)?.map(|(_, _, class, detail)| Violation {
            signature: class.clone(),
            class,
            detail: format!("{detail}; histories: {:?}", scn.histories.iter().map(|h| history_show(h)).collect::<Vec<_>>()),
            scenario: scenario.clone(),
        }))
    }

    fn minimise(&self, v: &Violation, deadline: Instant) -> Violation {
        let Ok(scn) = serde_json::from_value::<Scn>(v.scenario.clone()) else { return v.clone() };
        let class = v.class.clone();
        let fails = |s: &Scn| {
            let mut rep = RunReport::default();
            matches!(check_scn(s, &mut rep), Ok(Some((_, _, c, _))) if c == class)
        };
        let candidates = |s: &Scn| -> Vec<Scn> {
            let mut out = vec![];
            // drop whole histories (halves first), then single operations
            let n = s.histories.len();
            if n >= 4 {
                let mut c = s.clone();
                c.histories.drain(0..n / 2);
                out.push(c);
                let mut c = s.clone();
                c.histories.drain(n / 2..n - 1);
                out.push(c);
            }
            if n > 1 {
                for i in 0..n {
                    let mut c = s.clone();
                    c.histories.remove(i);
                    out.push(c);
                }
            }
            for hi in 0..n {
                for i in 0..s.histories[hi].len() {
                    if s.histories[hi].len() > 1 {
                        let mut c = s.clone();
                        c.histories[hi].remove(i);
                        out.push(c);
                    }
                }
                for (i, op) in s.histories[hi].iter().enumerate() {
                    if let Op::Call(call) = op {
                        if matches!(call.mode, Mode::Streamed | Mode::Faulted(_)) {
                            let mut c = s.clone();
                            c.histories[hi][i] = Op::Call(Call { mode: Mode::Buffered, ..call.clone() });
                            out.push(c);
                        }
                    }
                }
            }
            for ti in 0..s.world.templates.len() {
                for t in gen::shrink_candidates(&s.world.templates[ti]) {
                    let mut c = s.clone();
                    c.world.templates[ti] = t;
                    out.push(c);
                }
            }
            for i in 0..s.world.partials.defs.len() {
                let mut c = s.clone();
                c.world.partials.defs.remove(i);
                out.push(c);
                if let gen::PartialBody::Valid(nodes) = &s.world.partials.defs[i].body {
                    for t in gen::shrink_candidates(nodes) {
                        let mut c = s.clone();
                        c.world.partials.defs[i].body = gen::PartialBody::Valid(t);
                        out.push(c);
                    }
                }
            }
            out
        };
        let mut cur = crate::engine::minimise_greedy(scn, candidates, fails, deadline);
        cur.world.fill_sources();
        let mut rep = RunReport::default();
        let detail = match check_scn(&cur, &mut rep) {
            Ok(Some((_, _, _, d))) => format!("{d}; histories: {:?}", cur.histories.iter().map(|h| history_show(h)).collect::<Vec<_>>()),
            _ => v.detail.clone(),
        };
        Violation { class: v.class.clone(), signature: v.signature.clone(), detail, scenario: serde_json::to_value(&cur).unwrap() }
    }

    fn rule(&self) -> String {
        "one run = one world (2-3 templates x 2-3 data objects, 0-4 partials, one policy) and its call alphabet {render, render_to, render_to with a sink fault inside the write sequence} per (template, data); all histories of length <= 2 over the whole alphabet and all of length 3 over a sub-alphabet (<= 5 letters quick, <= 12 thorough), each on a fresh shared parser, plus seeded histories of length 4-6 with re-parse/clone operations and a final sweep; each call compared with the same call on a fresh parser. A world is non-trivial when a template uses a stateful construct (cycle, increment/decrement, ifchanged, break/continue, assign, capture, include, render); distinct = distinct (world, policy) hashes among those".into()
    }
    fn assumptions(&self) -> Vec<String> {
        vec![
            "the oracle is the library itself on a fresh parser: a defect that is already present on the first render of a fresh parser is invisible here".into(),
            "workloads never use the strings 'now'/'today' (the documented clock exception)".into(),
            "oracle and subject share the data instances, so the unspecified iteration order of multi-key objects cancels out".into(),
        ]
    }
    fn components(&self) -> Json {
        json!({"real": ["liquid Parser/Template", "liquid-core runtime, registers, stack frames, partial stores (eager, lazy cache, on-demand)", "liquid-lib stdlib"], "stub": ["output sink", "partial source", "caller data", "probe tag"]})
    }
    fn exhaustive_note(&self, _quick: bool) -> Option<String> {
        Some("per sampled world: exhaustive over histories of length <= 2 of the full alphabet and length 3 of a sub-alphabet (counter worlds_with_full_k3 = worlds whose whole alphabet fit)".into())
    }
    fn fresh_thread_per_run(&self) -> bool {
        true
    }
    fn required_probes(&self) -> Vec<&'static str> {
        vec!["fault.sink.hard", "fault.render.abort", "op.reparse", "op.clone_parser", "policy.Lazy", "policy.Eager", "policy.OnDemand", "letters.expected_err", "fresh_process_oracle.calls"]
    }
}

// ---- fresh-process oracle -----------------------------------------------------------------------
//
// State kept in a process-wide `static` (a memo keyed too coarsely, say) pollutes an in-process
// oracle exactly as it pollutes the subject. A few letters per run are therefore also evaluated in a
// brand-new process, which has rendered nothing else.

#[derive(Serialize, Deserialize)]
struct OracleReq {
    world: WorldSpec,
    policy: PolicyKind,
    calls: Vec<Call>,
}

/// `liquid-sim oracle-c09`: request on stdin, outcomes on stdout.
pub fn oracle_main() -> i32 {
    let mut txt = String::new();
    if std::io::Read::read_to_string(&mut std::io::stdin(), &mut txt).is_err() {
        return 2;
    }
    let Ok(req) = serde_json::from_str::<OracleReq>(&txt) else { return 2 };
    let srcs = req.world.sources();
    let globals = req.world.globals();
    let outs: Vec<Option<Outcome>> = req.calls.iter().map(|c| clean_expected(&req.world, req.policy, &srcs, &globals, c).ok()).collect();
    println!("{}", serde_json::to_string(&outs).unwrap());
    0
}

fn fresh_process_outcomes(spec: &WorldSpec, policy: PolicyKind, calls: &[Call]) -> Option<Vec<Option<Outcome>>> {
    use std::io::Write;
    let exe = std::env::current_exe().ok()?;
    let mut child = std::process::Command::new(exe)
        .arg("oracle-c09")
        .arg("-")
        .stdin(std::process::Stdio::piped())
        .stdout(std::process::Stdio::piped())
        .stderr(std::process::Stdio::null())
        .spawn()
        .ok()?;
    let req = OracleReq { world: spec.clone(), policy, calls: calls.to_vec() };
    child.stdin.take()?.write_all(serde_json::to_string(&req).ok()?.as_bytes()).ok()?;
    let out = child.wait_with_output().ok()?;
    serde_json::from_slice(&out.stdout).ok()
}

//! C18 — scope layers compose predictably (runtime stack algebra).
//!
//! Operation histories on the real frame types (`StackFrame`, `SandboxedStackFrame`,
//! `GlobalFrame` over `RuntimeBuilder::build()`), interpreted recursively so every frame is a
//! real frame dropped at the real time, refined against a stack-of-maps reference model.
//! There is no fault or schedule dimension here (see DESIGN.md: borderline).

use crate::engine::{Engine, RunReport, Violation};
use crate::prng::{run_seed, Fnv, Rng};
use liquid::model::{Object, Scalar, Value};
use liquid_core::runtime::{GlobalFrame, RuntimeBuilder, SandboxedStackFrame, StackFrame};
use liquid_core::{Runtime, ValueView};
use serde::{Deserialize, Serialize};
use serde_json::{json, Value as Json};
use std::collections::BTreeMap;
use std::time::Instant;

pub struct C18;

const KEYS: [&str; 2] = ["a", "b"];

/// What a name maps to in a layer's data: absent, scalar or object.
#[derive(Clone, Copy, Debug, PartialEq, Eq, Serialize, Deserialize)]
pub enum Slot {
    Absent,
    Scalar,
    Object,
    /// The name is defined with a nil value (only in seeded histories; the exhaustive space is the
    /// quantifier's {absent, scalar, object}).
    Nil,
}
const SLOTS: [Slot; 3] = [Slot::Absent, Slot::Scalar, Slot::Object];

#[derive(Clone, Copy, Debug, PartialEq, Eq, Serialize, Deserialize)]
pub enum Op {
    PushPlain(Slot, Slot),
    PushSandbox(Slot, Slot),
    PushGlobal,
    Pop,
    /// (key index, value is object)
    SetGlobal(u8, bool),
    SetIndex(u8, bool),
}

pub fn all_ops() -> Vec<Op> {
    let mut v = vec![];
    for a in SLOTS {
        for b in SLOTS {
            v.push(Op::PushPlain(a, b));
        }
    }
    for a in SLOTS {
        for b in SLOTS {
            v.push(Op::PushSandbox(a, b));
        }
    }
    v.push(Op::PushGlobal);
    v.push(Op::Pop);
    for k in 0..2 {
        for o in [false, true] {
            v.push(Op::SetGlobal(k, o));
        }
    }
    for k in 0..2 {
        for o in [false, true] {
            v.push(Op::SetIndex(k, o));
        }
    }
    v
}

const BASES: [(Slot, Slot); 3] = [(Slot::Absent, Slot::Absent), (Slot::Scalar, Slot::Absent), (Slot::Object, Slot::Scalar)];

// ---- reference model ---------------------------------------------------------------------------

/// Model value: scalar n, or object {a: n}.
#[derive(Clone, Copy, Debug, PartialEq, Eq)]
enum MV {
    S(i64),
    O(i64),
    /// nil
    N,
}

#[derive(Clone, Debug)]
enum Layer {
    Counters(BTreeMap<&'static str, MV>),
    Data(BTreeMap<&'static str, MV>),
    Global(BTreeMap<&'static str, MV>),
    Plain(BTreeMap<&'static str, MV>),
    Sandbox(BTreeMap<&'static str, MV>),
}

#[derive(Clone, Debug)]
struct Model {
    layers: Vec<Layer>,
}

fn slot_value(s: Slot, tag: i64) -> Option<MV> {
    match s {
        Slot::Absent => None,
        Slot::Scalar => Some(MV::S(tag)),
        Slot::Object => Some(MV::O(tag)),
        Slot::Nil => Some(MV::N),
    }
}

/// The one scalar / one object of fixed-value mode: scalar 7 and {a: 7}.
const FIXED_TAG: i64 = 7;

fn slot_map(a: Slot, b: Slot, tag: i64) -> BTreeMap<&'static str, MV> {
    let fixed = tag == FIXED_TAG;
    let mut m = BTreeMap::new();
    if let Some(v) = slot_value(a, if fixed { tag } else { tag + 1 }) {
        m.insert("a", v);
    }
    if let Some(v) = slot_value(b, if fixed { tag } else { tag + 2 }) {
        m.insert("b", v);
    }
    m
}

impl Model {
    fn new(base: (Slot, Slot), fixed: bool) -> Model {
        Model { layers: vec![Layer::Counters(BTreeMap::new()), Layer::Data(slot_map(base.0, base.1, if fixed { FIXED_TAG } else { 0 })), Layer::Global(BTreeMap::new())] }
    }
    fn lookup(&self, path: &[&str]) -> Option<MV> {
        for l in self.layers.iter().rev() {
            let (m, opaque) = match l {
                Layer::Counters(m) | Layer::Data(m) | Layer::Global(m) | Layer::Plain(m) => (m, false),
                Layer::Sandbox(m) => (m, true),
            };
            if let Some(v) = m.get(path[0]) {
                return match (path.len(), v) {
                    (1, v) => Some(*v),
                    (2, MV::O(n)) if path[1] == "a" => Some(MV::S(*n)),
                    // the synthesized `size` index: entries of an object, length of a scalar's text
                    (2, MV::O(_)) if path[1] == "size" => Some(MV::S(1)),
                    (2, MV::S(n)) if path[1] == "size" => Some(MV::S(n.to_string().len() as i64)),
                    _ => None,
                };
            }
            if opaque {
                return None;
            }
        }
        None
    }
    /// Which layer (index from the bottom) answers for the first key of `path`, if any.
    fn origin(&self, path: &[&str]) -> Option<usize> {
        for (i, l) in self.layers.iter().enumerate().rev() {
            let (m, opaque) = match l {
                Layer::Counters(m) | Layer::Data(m) | Layer::Global(m) | Layer::Plain(m) => (m, false),
                Layer::Sandbox(m) => (m, true),
            };
            if m.contains_key(path[0]) {
                return Some(i);
            }
            if opaque {
                return None;
            }
        }
        None
    }
    fn set_global(&mut self, k: &'static str, v: MV) -> Option<MV> {
        for l in self.layers.iter_mut().rev() {
            if let Layer::Global(m) = l {
                return m.insert(k, v);
            }
        }
        unreachable!("the base always has a global layer")
    }
    fn set_index(&mut self, k: &'static str, v: MV) -> Option<MV> {
        match &mut self.layers[0] {
            Layer::Counters(m) => m.insert(k, v),
            _ => unreachable!(),
        }
    }
    fn get_index(&self, k: &str) -> Option<MV> {
        match &self.layers[0] {
            Layer::Counters(m) => m.get(k).copied(),
            _ => unreachable!(),
        }
    }
}

// ---- real side -----------------------------------------------------------------------------------

fn mv_value(v: MV) -> Value {
    match v {
        MV::S(n) => Value::scalar(n),
        MV::O(n) => {
            let mut o = Object::new();
            o.insert("a".into(), Value::scalar(n));
            Value::Object(o)
        }
        MV::N => Value::Nil,
    }
}

fn map_object(m: &BTreeMap<&'static str, MV>) -> Object {
    let mut o = Object::new();
    for (k, v) in m {
        o.insert((*k).into(), mv_value(*v));
    }
    o
}

fn value_matches(got: &Value, want: MV) -> bool {
    crate::data::deep_eq(got, &mv_value(want))
}

#[derive(Default)]
struct Stats {
    observations: u64,
    lookups: u64,
    states: Vec<u64>,
}

type Fail = (String, String);

/// Compare everything observable on `rt` with the model.
fn observe(rt: &dyn Runtime, model: &Model, st: &mut Stats) -> Result<(), Fail> {
    st.observations += 1;
    let mut sig = Fnv::new();
    let mut resolving: Vec<&str> = vec![];
    let mut paths: Vec<Vec<&str>> = vec![];
    for k in KEYS {
        paths.push(vec![k]);
    }
    for k in KEYS {
        for k2 in KEYS {
            paths.push(vec![k, k2]);
        }
    }
    // names nobody defines but the value model synthesizes (`size` of any object / scalar): a layer
    // must stay transparent for them, and resolve them only inside a value it really defines
    paths.push(vec!["size"]);
    for k in KEYS {
        paths.push(vec![k, "size"]);
    }
    for p in &paths {
        st.lookups += 2;
        let sp: Vec<Scalar> = p.iter().map(|s| Scalar::new(s.to_string())).collect();
        let got = rt.get(&sp).ok().map(|v| v.into_owned());
        let tried = rt.try_get(&sp).map(|v| v.into_owned());
        let want = model.lookup(p);
        if got.is_some() != tried.is_some() {
            return Err(("R1-get-vs-try_get".into(), format!("path {p:?}: get is {} but try_get is {}", if got.is_some() { "Ok" } else { "Err" }, if tried.is_some() { "Some" } else { "None" })));
        }
        if let (Some(g), Some(t)) = (&got, &tried) {
            if !crate::data::deep_eq(g, t) {
                return Err(("R1-get-vs-try_get".into(), format!("path {p:?}: get gives {} but try_get gives {}", g.source(), t.source())));
            }
        }
        match (&got, want) {
            (None, None) => {
                sig.u64(0).u64(model.origin(p).map(|i| i as u64 + 1).unwrap_or(0));
            }
            (Some(g), Some(w)) if value_matches(g, w) => {
                sig.u64(match w {
                    MV::S(_) => 1,
                    MV::O(_) => 2,
                    MV::N => 3,
                })
                .u64(model.origin(p).map(|i| i as u64 + 1).unwrap_or(0));
            }
            (g, w) => {
                return Err((
                    "R1-lookup-differs-from-model".into(),
                    format!("path {p:?}: runtime gives {:?} but the stack-of-maps model gives {:?}", g.as_ref().map(|v| v.source().to_string()), w),
                ));
            }
        }
        if p.len() == 1 && got.is_some() {
            resolving.push(p[0]);
        }
    }
    let roots: Vec<String> = rt.roots().into_iter().map(|k| k.as_str().to_string()).collect();
    let mut want_roots: Vec<String> = resolving.iter().map(|s| s.to_string()).collect();
    want_roots.sort();
    if roots != want_roots {
        return Err(("R2-roots".into(), format!("roots() lists {roots:?} but the top-level names that resolve are {want_roots:?}")));
    }
    for k in KEYS {
        let got = rt.get_index(k).map(|v| v.into_owned());
        let want = model.get_index(k);
        let ok = match (&got, want) {
            (None, None) => true,
            (Some(g), Some(w)) => value_matches(g, w),
            _ => false,
        };
        if !ok {
            return Err(("R3-counters".into(), format!("get_index({k:?}) gives {:?} but the model's shared counters hold {:?}", got.map(|v| v.source().to_string()), want)));
        }
        sig.u64(want.map(|w| match w { MV::S(_) => 1, MV::O(_) => 2, MV::N => 3 }).unwrap_or(0));
    }
    // abstract-state signature: layer kinds + what is observable
    for l in &model.layers {
        sig.u64(match l {
            Layer::Counters(_) => 1,
            Layer::Data(_) => 2,
            Layer::Global(_) => 3,
            Layer::Plain(_) => 4,
            Layer::Sandbox(_) => 5,
        });
    }
    st.states.push(sig.finish());
    Ok(())
}

enum Flow<'a> {
    End,
    Popped(&'a [Op], usize),
}

/// Interpret `ops` on top of `rt`. `pos` is the 1-based index of ops[0] in the whole history
/// (it makes every written value unique). Observes after every operation when `obs_all`, and
/// always at the end of the history on the then-current top frame.
fn interp<'a>(rt: &dyn Runtime, mut ops: &'a [Op], mut pos: usize, depth: usize, model: &mut Model, obs_all: bool, fixed: bool, st: &mut Stats) -> Result<Flow<'a>, Fail> {
    loop {
        let Some(op) = ops.first().copied() else {
            observe(rt, model, st)?;
            return Ok(Flow::End);
        };
        // unique mode: every written value is derived from the operation's position (attributable
        // reads); fixed mode: the quantifier's two values only, so that EQUAL values meet
        let tag = if fixed { FIXED_TAG } else { pos as i64 * 100 };
        let rest = &ops[1..];
        match op {
            Op::PushPlain(a, b) | Op::PushSandbox(a, b) => {
                let m = slot_map(a, b, tag);
                let data = map_object(&m);
                let sandbox = matches!(op, Op::PushSandbox(..));
                model.layers.push(if sandbox { Layer::Sandbox(m) } else { Layer::Plain(m) });
                let flow = if sandbox {
                    let frame = SandboxedStackFrame::new(rt, &data);
                    if obs_all {
                        observe(&frame, model, st)?;
                    }
                    interp(&frame, rest, pos + 1, depth + 1, model, obs_all, fixed, st)?
                } else {
                    let frame = StackFrame::new(rt, &data);
                    if obs_all {
                        observe(&frame, model, st)?;
                    }
                    interp(&frame, rest, pos + 1, depth + 1, model, obs_all, fixed, st)?
                };
                match flow {
                    Flow::End => return Ok(Flow::End),
                    Flow::Popped(r, p) => {
                        model.layers.pop();
                        ops = r;
                        pos = p;
                        if obs_all {
                            observe(rt, model, st)?;
                        }
                    }
                }
            }
            Op::PushGlobal => {
                model.layers.push(Layer::Global(BTreeMap::new()));
                let frame = GlobalFrame::new(rt);
                if obs_all {
                    observe(&frame, model, st)?;
                }
                match interp(&frame, rest, pos + 1, depth + 1, model, obs_all, fixed, st)? {
                    Flow::End => return Ok(Flow::End),
                    Flow::Popped(r, p) => {
                        model.layers.pop();
                        ops = r;
                        pos = p;
                        if obs_all {
                            observe(rt, model, st)?;
                        }
                    }
                }
            }
            Op::Pop => {
                if depth == 0 {
                    // nothing to pop: no-op
                    ops = rest;
                    pos += 1;
                } else {
                    if rest.is_empty() {
                        // the history ends with this pop: observe the frame below after the drop
                        return Ok(Flow::Popped(rest, pos + 1));
                    }
                    return Ok(Flow::Popped(rest, pos + 1));
                }
            }
            Op::SetGlobal(k, o) => {
                let key = KEYS[k as usize];
                let v = if o { MV::O(tag + if fixed { 0 } else { 3 }) } else { MV::S(tag + if fixed { 0 } else { 3 }) };
                let prev = rt.set_global(key.into(), mv_value(v));
                let mprev = model.set_global(key, v);
                check_prev("set_global", key, prev, mprev)?;
                ops = rest;
                pos += 1;
                if obs_all {
                    observe(rt, model, st)?;
                }
            }
            Op::SetIndex(k, o) => {
                let key = KEYS[k as usize];
                let v = if o { MV::O(tag + if fixed { 0 } else { 4 }) } else { MV::S(tag + if fixed { 0 } else { 4 }) };
                let prev = rt.set_index(key.into(), mv_value(v));
                let mprev = model.set_index(key, v);
                check_prev("set_index", key, prev, mprev)?;
                ops = rest;
                pos += 1;
                if obs_all {
                    observe(rt, model, st)?;
                }
            }
        }
    }
}

thread_local! {
    static PREV_MISMATCH: std::cell::Cell<u64> = const { std::cell::Cell::new(0) };
}

fn check_prev(what: &str, key: &str, prev: Option<Value>, mprev: Option<MV>) -> Result<(), Fail> {
    let ok = match (&prev, mprev) {
        (None, None) => true,
        (Some(p), Some(m)) => value_matches(p, m),
        _ => false,
    };
    // The value returned by an assignment is not part of the property's statement: a mismatch is
    // only counted (probe), never reported.
    let _ = (what, key);
    if !ok {
        PREV_MISMATCH.with(|c| c.set(c.get() + 1));
    }
    Ok(())
}

/// Run one history over one base data map. Panics inside the runtime are reported as R5.
fn run_history(base: (Slot, Slot), ops: &[Op], obs_all: bool, fixed: bool, st: &mut Stats) -> Result<(), Fail> {
    let r = crate::sched::catch(|| {
        let d0 = map_object(&slot_map(base.0, base.1, if fixed { FIXED_TAG } else { 0 }));
        let rt = RuntimeBuilder::new().set_globals(&d0).build();
        let mut model = Model::new(base, fixed);
        let mut local = Stats::default();
        let res = (|| {
            if obs_all {
                observe(&rt, &model, &mut local)?;
            }
            // When the history ends in pops, `interp` returns Popped at depth 0 never; handle End only.
            match interp(&rt, ops, 1, 0, &mut model, obs_all, fixed, &mut local)? {
                Flow::End => Ok(()),
                Flow::Popped(..) => unreachable!("pop at depth 0 is a no-op"),
            }
        })();
        (res, local)
    });
    match r {
        Ok((res, local)) => {
            st.observations += local.observations;
            st.lookups += local.lookups;
            st.states.extend(local.states);
            res
        }
        Err(m) => Err(("R5-panic".into(), format!("runtime panicked: {m}"))),
    }
}

#[derive(Clone, Debug, Serialize, Deserialize)]
pub struct Scn {
    pub base: (Slot, Slot),
    pub ops: Vec<Op>,
    pub class: String,
    /// Fixed-value mode: all scalars are 7 and all objects {a: 7} (equal values can meet).
    #[serde(default)]
    pub fixed: bool,
}

fn violation(base: (Slot, Slot), ops: &[Op], fixed: bool, class: String, detail: String) -> Violation {
    let scn = Scn { base, ops: ops.to_vec(), class: class.clone(), fixed };
    let mode = if fixed { "fixed values (scalar 7, object {a: 7})" } else { "unique values" };
    Violation { signature: class.clone(), class, detail: format!("{detail}; base data {base:?}; {mode}; history {ops:?}"), scenario: serde_json::to_value(&scn).unwrap() }
}

/// The exhaustive alphabet plus scopes that define a name as nil.
fn extended_ops() -> Vec<Op> {
    let mut v = all_ops();
    let all = [Slot::Absent, Slot::Scalar, Slot::Object, Slot::Nil];
    for a in all {
        for b in all {
            if a == Slot::Nil || b == Slot::Nil {
                v.push(Op::PushPlain(a, b));
                v.push(Op::PushSandbox(a, b));
            }
        }
    }
    v
}

fn random_history(rng: &mut Rng, ops: &[Op], len: usize) -> Vec<Op> {
    let mut h = vec![];
    let mut depth = 0usize;
    for _ in 0..len {
        loop {
            let op = ops[rng.below(ops.len())];
            match op {
                Op::Pop if depth == 0 => continue,
                Op::Pop => depth -= 1,
                Op::PushPlain(..) | Op::PushSandbox(..) | Op::PushGlobal => {
                    if depth >= 6 {
                        continue;
                    }
                    depth += 1
                }
                _ => {}
            }
            h.push(op);
            break;
        }
    }
    h
}

/// Exhaustive part: prefixes of length 2 are distributed over run indices.
fn exhaustive_depth(quick: bool) -> usize {
    if quick {
        5
    } else {
        6
    }
}

impl Engine for C18 {
    fn id(&self) -> &'static str {
        "C18"
    }
    fn level(&self) -> &'static str {
        "exploration"
    }
    fn runs(&self, quick: bool) -> u64 {
        let n = all_ops().len() as u64;
        // one exhaustive pass with unique values, one (one step shallower) with the two fixed values
        let exhaustive_runs = 2 * 3 * n * n;
        exhaustive_runs + if quick { 400 } else { 20_000 }
    }

    fn run(&self, master: u64, index: u64, quick: bool) -> RunReport {
        let mut rep = RunReport::default();
        let ops = all_ops();
        let n = ops.len() as u64;
        let mut st = Stats::default();
        let one_pass = 3 * n * n;
        let exhaustive_runs = 2 * one_pass;
        let mut digest = Fnv::new();
        if index < exhaustive_runs {
            // all histories that start with the prefix (o1, o2) over base b, up to the tier's depth;
            // run (b, 0, 0) additionally covers the histories of length <= 1, run (b, o1, 0) those of length 1..
            let fixed = index >= one_pass;
            let index = index % one_pass;
            let b = BASES[(index / (n * n)) as usize];
            let o1 = ops[((index / n) % n) as usize];
            let o2 = ops[(index % n) as usize];
            let depth = if fixed { exhaustive_depth(quick) - 1 } else { exhaustive_depth(quick) };
            let mut hist = vec![o1, o2];
            let mut count = 0u64;
            let mut fail: Option<Violation> = None;
            if index % (n * n) == 0 {
                // length 0 and length 1 histories for this base
                if let Err((c, d)) = run_history(b, &[], true, fixed, &mut st) {
                    fail = Some(violation(b, &[], fixed, c, d));
                }
                for o in &ops {
                    count += 1;
                    if fail.is_none() {
                        if let Err((c, d)) = run_history(b, &[*o], false, fixed, &mut st) {
                            fail = Some(violation(b, &[*o], fixed, c, d));
                        }
                    }
                }
            }
            // DFS over suffixes
            fn dfs(b: (Slot, Slot), ops: &[Op], hist: &mut Vec<Op>, depth: usize, fixed: bool, st: &mut Stats, count: &mut u64, fail: &mut Option<Violation>) {
                if fail.is_some() {
                    return;
                }
                *count += 1;
                if let Err((c, d)) = run_history(b, hist, false, fixed, st) {
                    *fail = Some(violation(b, hist, fixed, c, d));
                    return;
                }
                if hist.len() >= depth {
                    return;
                }
                for o in ops {
                    hist.push(*o);
                    dfs(b, ops, hist, depth, fixed, st, count, fail);
                    hist.pop();
                }
            }
            if fail.is_none() {
                dfs(b, &ops, &mut hist, depth, fixed, &mut st, &mut count, &mut fail);
            }
            rep.bump(if fixed { "histories.exhaustive.fixed_values" } else { "histories.exhaustive" }, count);
            if let Some(v) = fail {
                rep.violations.push(v);
            }
            if index == 31 {
                rep.sample = Some(json!({"kind": "exhaustive", "base": format!("{b:?}"), "prefix": format!("{:?}", [o1, o2]), "histories": count, "max_len": depth}));
            }
        } else {
            let mut rng = Rng::new(run_seed(master, "C18", index));
            let per_run = if quick { 500 } else { 2000 };
            let ext = extended_ops();
            for i in 0..per_run {
                let len = 4 + rng.below(9);
                let b = BASES[rng.below(3)];
                let use_ext = rng.chance(1, 2);
                let h = random_history(&mut rng, if use_ext { &ext } else { &ops }, len);
                let fixed = rng.chance(1, 2);
                if let Err((c, d)) = run_history(b, &h, true, fixed, &mut st) {
                    rep.violations.push(violation(b, &h, fixed, c, d));
                    break;
                }
                if i == 0 && index == exhaustive_runs {
                    rep.sample = Some(json!({"kind": "random", "base": format!("{b:?}"), "history": format!("{h:?}")}));
                }
            }
            rep.bump("histories.random", per_run as u64);
        }
        rep.bump("probe.assignment_return_value_differs_from_model", PREV_MISMATCH.with(|c| c.replace(0)));
        rep.evals = st.observations;
        rep.logical_time = st.lookups;
        rep.bump("lookups", st.lookups);
        st.states.sort_unstable();
        st.states.dedup();
        for s in &st.states {
            digest.u64(*s);
        }
        rep.distinct = st.states;
        digest.u64(rep.evals).u64(rep.violations.len() as u64);
        rep.digest = digest.finish();
        rep
    }

    fn replay(&self, scenario: &Json) -> Result<Option<Violation>, String> {
        let scn: Scn = serde_json::from_value(scenario.clone()).map_err(|e| format!("bad C18 scenario: {e}"))?;
        let mut st = Stats::default();
        Ok(run_history(scn.base, &scn.ops, true, scn.fixed, &mut st).err().map(|(c, d)| violation(scn.base, &scn.ops, scn.fixed, c, d)))
    }

    fn minimise(&self, v: &Violation, deadline: Instant) -> Violation {
        let Ok(scn) = serde_json::from_value::<Scn>(v.scenario.clone()) else { return v.clone() };
        let class = v.class.clone();
        let fails = |s: &Scn| {
            let mut st = Stats::default();
            matches!(run_history(s.base, &s.ops, true, s.fixed, &mut st), Err((c, _)) if c == class)
        };
        let candidates = |s: &Scn| -> Vec<Scn> {
            let mut out = vec![];
            for i in 0..s.ops.len() {
                let mut c = s.clone();
                c.ops.remove(i);
                out.push(c);
            }
            for b in BASES {
                if b != s.base && b == BASES[0] {
                    let mut c = s.clone();
                    c.base = b;
                    out.push(c);
                }
            }
            for i in 0..s.ops.len() {
                let simpler = match s.ops[i] {
                    Op::PushPlain(a, b) if (a, b) != (Slot::Absent, Slot::Absent) => vec![Op::PushPlain(Slot::Absent, b), Op::PushPlain(a, Slot::Absent)],
                    Op::PushSandbox(a, b) if (a, b) != (Slot::Absent, Slot::Absent) => vec![Op::PushSandbox(Slot::Absent, b), Op::PushSandbox(a, Slot::Absent)],
                    Op::SetGlobal(k, true) => vec![Op::SetGlobal(k, false)],
                    Op::SetIndex(k, true) => vec![Op::SetIndex(k, false)],
                    _ => vec![],
                };
                for o in simpler {
                    if o != s.ops[i] {
                        let mut c = s.clone();
                        c.ops[i] = o;
                        out.push(c);
                    }
                }
            }
            out
        };
        let cur = crate::engine::minimise_greedy(scn, candidates, fails, deadline);
        let mut st = Stats::default();
        match run_history(cur.base, &cur.ops, true, cur.fixed, &mut st) {
            Err((c, d)) => violation(cur.base, &cur.ops, cur.fixed, c, d),
            Ok(()) => v.clone(),
        }
    }

    fn rule(&self) -> String {
        "operations {push plain scope d, push sandboxed scope d, push global layer, pop, set_global k v, set_index k v} with k in {a,b}, v in {scalar, object}, d in the 9 maps over {a,b}->{absent, scalar, object} (28 letters) over 3 base data maps; ALL histories up to length 5 (quick) / 6 (thorough) are enumerated with unique written values (every read attributable to one write) and again, one step shallower, with the quantifier's two fixed values (scalar 7, object {a: 7}; equal values can meet), each executed on the real frame types and observed at its end (every prefix is itself enumerated), plus seeded histories of length 4-12 observed after every step; observation = get and try_get of all 6 paths of length 1-2 over {a,b} plus `size`, `a.size`, `b.size` (the synthesized index nobody defines), roots(), get_index of both keys; distinct_nontrivial = distinct abstract states reached, by hash of (layer-kind stack; for each path which layer answers and with what kind of value; counter kinds) — written values themselves are unique per operation and are not part of the state signature".into()
    }
    fn assumptions(&self) -> Vec<String> {
        vec![
            "no fault or schedule dimension exists for this property; this is the reference-model half of the technique only (DESIGN.md calls the claim borderline)".into(),
            "the reference model is a 60-line stack of maps written from the property text; it shares no code with runtime/stack.rs".into(),
            "IndexFrame is crate-private and reached only through RuntimeBuilder::build()".into(),
        ]
    }
    fn components(&self) -> Json {
        json!({"real": ["StackFrame", "SandboxedStackFrame", "GlobalFrame", "IndexFrame and RuntimeCore via RuntimeBuilder::build", "model::find / try_find"], "stub": ["none (data maps are plain liquid Objects)"], "model": "stack-of-maps reference model (engines/c18.rs)"})
    }
    fn exhaustive_note(&self, quick: bool) -> Option<String> {
        Some(format!("exhaustive over all operation histories of length <= {} with unique values and of length <= {} with the two fixed values, for 3 base data maps (28 operation letters); longer histories sampled", exhaustive_depth(quick), exhaustive_depth(quick) - 1))
    }
    fn exhaustive(&self, _quick: bool) -> bool {
        // the bounded space (all histories up to the tier's length) is enumerated completely; the
        // longer random histories come on top
        true
    }
    fn required_probes(&self) -> Vec<&'static str> {
        vec!["histories.exhaustive", "histories.exhaustive.fixed_values", "histories.random"]
    }
}

//! C10 — a failing sink gives an error and a clean prefix.
//!
//! For every generated template the sink fails at *every* write index k with every hard fault
//! kind (enumerated), plus seeded transparent faults (short writes, EINTR) and double faults.

use crate::engine::{Engine, RunReport, Violation};
use crate::gen::{self, Gen, GenCfg};
use crate::prng::{run_seed, Fnv, Rng};
use crate::scenario::WorldSpec;
use crate::seams::{FaultPlan, HardFault, HardKind, IoKind, IO_KINDS};
use crate::world::{self, Outcome, PolicyKind, POLICIES};
use serde::{Deserialize, Serialize};
use serde_json::{json, Value as Json};
use std::time::Instant;

pub struct C10;

#[derive(Clone, Debug, Serialize, Deserialize)]
pub struct Scn {
    pub world: WorldSpec,
    pub policy: PolicyKind,
    /// The fault plan under which the invariant failed (None: fault-free invariant F0).
    pub plan: Option<FaultPlan>,
    pub class: String,
}

pub fn gen_world(rng: &mut Rng, n_templates: usize, n_datas: usize, stateful: bool, holes: bool) -> WorldSpec {
    let mut cfg = GenCfg::swarm(rng, stateful);
    let corrupt = if rng.chance(1, 3) { 2 } else { 0 };
    let absent = if rng.chance(1, 4) { 4 } else { 0 };
    let partials = gen::gen_partials(rng, &cfg, corrupt, absent, 4);
    cfg.partials = partials.names().iter().map(|n| gen::invocation_name(n)).collect();
    cfg.stored = partials.names();
    cfg.absent = partials.absent.clone();
    let mut templates: Vec<Vec<gen::Node>> = vec![];
    for _ in 0..n_templates {
        let mut g = Gen::new(rng, &cfg);
        templates.push(g.template());
    }
    let names = partials.names();
    let mut datas: Vec<crate::data::Dv> = (0..n_datas)
        .map(|_| {
            let h = holes && rng.chance(1, 4);
            gen::gen_data(rng, &names, h)
        })
        .collect();
    let mut partials = partials;
    if stateful && templates.len() >= 2 && rng.chance(1, 2) {
        // the last template is a near-duplicate of the first (see gen::near_duplicate)
        let last = templates.len() - 1;
        templates[last] = gen::near_duplicate(&templates[0], rng);
    }
    if stateful {
        // history engines: renders that fail midway for some data and succeed for other data
        for t in templates.iter_mut() {
            if rng.chance(1, 3) {
                gen::inject_abort(t, rng);
            }
            if rng.chance(1, 3) {
                gen::inject_abort_in_capture(t, rng);
            }
        }
        for d in partials.defs.iter_mut() {
            if let gen::PartialBody::Valid(nodes) = &mut d.body {
                if rng.chance(1, 4) {
                    gen::inject_abort(nodes, rng);
                }
            }
        }
        for d in datas.iter_mut() {
            if let crate::data::Dv::Object(o) = d {
                if rng.chance(1, 4) {
                    o.retain(|(k, _)| k != "boom");
                }
            }
        }
    }
    let mut w = WorldSpec {
        partials,
        listing_rot: rng.below(4),
        templates,
        datas,
        hash_base: rng.next_u64(),
        template_src: vec![],
        partial_src: vec![],
    };
    w.fill_sources();
    w
}

pub fn hard_kinds(rng: &mut Rng) -> Vec<HardKind> {
    let mut v: Vec<HardKind> = IO_KINDS.iter().map(|k| HardKind::Err(*k)).collect();
    v.push(HardKind::Zero);
    v.push(HardKind::ShortThenErr(1 + rng.below(6), *rng.pick(&IO_KINDS)));
    v
}

/// Bytes the fault-free run had written before logical call `k` (1-based).
fn prefix_len(chunks: &[usize], k: usize) -> usize {
    chunks[..k - 1].iter().sum()
}

pub fn expected_prefix_len(chunks: &[usize], h: &HardFault) -> usize {
    let base = prefix_len(chunks, h.at);
    match h.kind {
        HardKind::ShortThenErr(n, _) => {
            let len = chunks[h.at - 1];
            if len >= 2 {
                base + n.clamp(1, len - 1)
            } else {
                base
            }
        }
        _ => base,
    }
}

struct Ctx<'a> {
    tmpl: &'a liquid::Template,
    globals: &'a dyn liquid::ObjectView,
    base: &'a Outcome,
    chunks: &'a [usize],
}

/// Check one fault plan against the fault-free baseline. Returns (class, detail) on violation.
fn check_plan(c: &Ctx<'_>, plan: &FaultPlan, rep_out: &mut RunReport) -> Option<(String, String)> {
    let (out, rep) = world::render_streamed(c.tmpl, c.globals, plan);
    rep_out.evals += 1;
    rep_out.logical_time += rep.phys_calls as u64;
    rep_out.bump("fault.sink.short", rep.stats.short_fired);
    rep_out.bump("fault.sink.eintr", rep.stats.eintr_fired);
    rep_out.bump("fault.sink.zero", rep.stats.zero_fired);
    let b = c.base.bytes();
    if out.is_budget() {
        rep_out.bump("discarded_budget_in_faulted_run", 1);
        return None;
    }
    if let Outcome::Panic(m) = &out {
        if m.contains("SINK-RUNAWAY") {
            return Some(("F3-write-after-fault".into(), format!("the library kept calling the failed sink ({} calls after the fault, cut off by the harness) under {plan:?}", rep.calls_after_hard)));
        }
        return Some(("F1-panic".into(), format!("render_to panicked under {plan:?}: {m}")));
    }
    match plan.hard {
        Some(h) => {
            if !rep.hard_returned {
                rep_out.bump("fault_not_fired", 1);
                // the sink never failed: the transparent contract applies
                if out != *c.base {
                    return Some((
                        "F5-transparent-differs".into(),
                        format!("fault at call {} did not fire and result differs: {} vs {}", h.at, out.show(), c.base.show()),
                    ));
                }
                return None;
            }
            rep_out.bump("fault.sink.hard", 1);
            rep_out.bump(
                match h.kind {
                    HardKind::Err(IoKind::Other) => "fault.sink.err.other",
                    HardKind::Err(IoKind::BrokenPipe) => "fault.sink.err.brokenpipe",
                    HardKind::Err(IoKind::WouldBlock) => "fault.sink.err.wouldblock",
                    HardKind::Err(IoKind::StorageFull) => "fault.sink.err.storagefull",
                    HardKind::Err(IoKind::TimedOut) => "fault.sink.err.timedout",
                    HardKind::Err(IoKind::ConnectionReset) => "fault.sink.err.connectionreset",
                    HardKind::Err(IoKind::PermissionDenied) => "fault.sink.err.permissiondenied",
                    HardKind::Err(IoKind::UnexpectedEof) => "fault.sink.err.unexpectedeof",
                    HardKind::Err(IoKind::WriteZero) => "fault.sink.err.writezero",
                    HardKind::Err(IoKind::Unsupported) => "fault.sink.err.unsupported",
                    HardKind::Zero => "fault.sink.zero_hard",
                    HardKind::ShortThenErr(..) => "fault.sink.short_then_err",
                },
                1,
            );
            if out.is_ok() {
                return Some((
                    "F1-ok-after-fault".into(),
                    format!("sink failed at write {} ({:?}, sticky={}) but render_to returned Ok", h.at, h.kind, h.sticky),
                ));
            }
            rep_out.bump("probe.flush_after_fault", rep.flushes_after_hard as u64);
            if rep.calls_after_hard > 0 {
                return Some((
                    "F3-write-after-fault".into(),
                    format!(
                        "{} write call(s) ({} bytes) after the sink failed at write {} ({:?}, sticky={})",
                        rep.calls_after_hard, rep.bytes_after_hard, h.at, h.kind, h.sticky
                    ),
                ));
            }
            if !b.starts_with(out.bytes()) {
                return Some((
                    "F2-prefix".into(),
                    format!(
                        "accepted bytes {:?} are not a prefix of the fault-free output {:?} (fault at write {}, {:?})",
                        String::from_utf8_lossy(out.bytes()),
                        String::from_utf8_lossy(b),
                        h.at,
                        h.kind
                    ),
                ));
            }
            // not demanded by the property (only "a prefix" is): the length the write sequence predicts
            let want = expected_prefix_len(c.chunks, &h).min(b.len());
            if out.bytes().len() != want {
                rep_out.bump("probe.prefix_length_unexpected", 1);
            }
            None
        }
        None => {
            if out != *c.base {
                // A sink that returns `Interrupted` has, strictly speaking, failed at that write: a
                // library that gives up there (error, clean prefix, silence afterwards) still satisfies
                // the property. Short counts are not failures and must be transparent.
                let eintr_plan = plan.eintr_every.is_some() || !plan.eintr_at.is_empty();
                if eintr_plan && rep.stats.eintr_fired > 0 && out.is_err() && b.starts_with(out.bytes()) && rep.calls_after_first_eintr == 0 {
                    rep_out.bump("probe.eintr_treated_as_failure", 1);
                    return None;
                }
                return Some((
                    "F5-transparent-differs".into(),
                    format!("short writes / EINTR changed the result: {} vs fault-free {}", out.show(), c.base.show()),
                ));
            }
            None
        }
    }
}

/// All C10 invariants for one (template, data, policy). `only` restricts to one plan (replay).
fn check_world(spec: &WorldSpec, policy: PolicyKind, rng: &mut Rng, only: Option<&Option<FaultPlan>>, quick: bool, rep: &mut RunReport) -> Option<(String, String, Option<FaultPlan>)> {
    let globals = spec.globals();
    let w = match spec.build(policy) {
        Ok(w) => w,
        Err(e) => {
            return Some(("I1-build-failed".into(), format!("ParserBuilder::build failed: {e}"), None));
        }
    };
    let src = &spec.sources()[0];
    let tmpl = match world::parse(&w.parser, src) {
        Ok(t) => t,
        Err(_) => {
            rep.bump("discarded_parse_fail", 1);
            return None;
        }
    };
    let g: &dyn liquid::ObjectView = &globals[0];
    let (base, rep0) = world::render_streamed(&tmpl, g, &FaultPlan::none());
    rep.evals += 1;
    rep.logical_time += rep0.phys_calls as u64 + w.source.total_reads();
    if base.is_panic() {
        rep.bump("discarded_baseline_panic", 1);
        return None;
    }
    let wcalls = rep0.logical_calls;
    rep.bump(if base.is_ok() { "baseline.ok" } else { "baseline.err" }, 1);
    rep.bump("baseline.write_calls", wcalls as u64);
    if wcalls > 400 {
        rep.bump("discarded_too_many_writes", 1);
        return None;
    }
    // F0: buffered == streamed on an infallible sink
    let buf = world::render_buffered(&tmpl, g);
    rep.evals += 1;
    let f0 = match (&buf, &base) {
        (Outcome::Ok(a), Outcome::Ok(b)) => a == b && std::str::from_utf8(b).is_ok(),
        (Outcome::Err { .. }, Outcome::Err { .. }) => true,
        _ => false,
    };
    if !f0 && (only.is_none() || only == Some(&None)) {
        return Some(("F0-buffered-differs".into(), format!("render() gave {} but render_to on an infallible sink gave {}", buf.show(), base.show()), None));
    }
    let ctx = Ctx { tmpl: &tmpl, globals: g, base: &base, chunks: &rep0.chunks };
    if let Some(o) = only {
        if let Some(plan) = o {
            if let Some(h) = plan.hard {
                if h.at > wcalls {
                    return None;
                }
            }
            if let Some((c, d)) = check_plan(&ctx, plan, rep) {
                return Some((c, d, Some(plan.clone())));
            }
        }
        return None;
    }
    if wcalls >= 2 {
        rep.distinct.push(Fnv::new().u64(spec.hash()).u64(policy as u64).finish());
        rep.bump("fault_points_enumerated", (wcalls * 24) as u64);
    }
    rep.bump("templates_with_partials_reached", (w.source.total_reads() > 0) as u64);
    // hard faults: every k, every kind, both stickiness modes
    let kinds = hard_kinds(rng);
    for k in 1..=wcalls {
        for kind in &kinds {
            for sticky in [false, true] {
                let plan = FaultPlan::hard(k, *kind, sticky);
                if let Some((c, d)) = check_plan(&ctx, &plan, rep) {
                    return Some((c, d, Some(plan)));
                }
            }
        }
    }
    // transparent faults
    let n_transparent = if quick { 3 } else { 8 };
    for i in 0..n_transparent {
        let mut plan = FaultPlan::none();
        match i % 3 {
            0 => plan.short_every = Some(rng.next_u64()),
            1 => plan.eintr_every = Some((rng.next_u64(), 100 + rng.below(600) as u16)),
            _ => {
                plan.short_every = Some(rng.next_u64());
                plan.eintr_every = Some((rng.next_u64(), 200));
            }
        }
        if wcalls > 0 && rng.chance(1, 2) {
            plan.eintr_at.push((1 + rng.below(wcalls), 1 + rng.below(3) as u8));
            plan.short_at.push((1 + rng.below(wcalls), 1 + rng.below(3)));
        }
        if let Some((c, d)) = check_plan(&ctx, &plan, rep) {
            return Some((c, d, Some(plan)));
        }
    }
    // double faults: transparent noise before a hard fault
    if wcalls > 0 {
        let n_double = if quick { 2 } else { 8 };
        for _ in 0..n_double {
            let k = 1 + rng.below(wcalls);
            let mut plan = FaultPlan::hard(k, *rng.pick(&kinds), rng.chance(1, 2));
            plan.short_every = Some(rng.next_u64());
            if rng.chance(1, 2) {
                plan.eintr_every = Some((rng.next_u64(), 300));
            }
            rep.bump("fault.double", 1);
            if let Some((c, d)) = check_plan(&ctx, &plan, rep) {
                return Some((c, d, Some(plan)));
            }
        }
    }
    None
}

fn to_violation(spec: &WorldSpec, policy: PolicyKind, class: String, detail: String, plan: Option<FaultPlan>) -> Violation {
    let scn = Scn { world: spec.clone(), policy, plan, class: class.clone() };
    Violation { signature: class.clone(), class, detail, scenario: serde_json::to_value(&scn).unwrap() }
}

impl Engine for C10 {
    fn id(&self) -> &'static str {
        "C10"
    }
    fn level(&self) -> &'static str {
        "fault_enumeration"
    }
    fn runs(&self, quick: bool) -> u64 {
        if quick {
            60_000
        } else {
            2_000_000
        }
    }

    fn run(&self, master: u64, index: u64, quick: bool) -> RunReport {
        let mut rep = RunReport::default();
        let mut rng = Rng::new(run_seed(master, "C10", index));
        let spec = gen_world(&mut rng, 1, 1, false, true);
        let policy = *rng.pick(&POLICIES);
        let mut cons = std::collections::BTreeMap::new();
        gen::constructs(&spec.templates[0], &mut cons);
        for (k, v) in cons {
            rep.bump(&format!("construct.{k}"), v);
        }
        if let Some((class, detail, plan)) = check_world(&spec, policy, &mut rng, None, quick, &mut rep) {
            rep.violations.push(to_violation(&spec, policy, class, detail, plan));
        }
        if index < 3 {
            rep.sample = Some(json!({"template": spec.template_src[0], "partials": spec.partial_src, "data": spec.datas[0].show(), "policy": format!("{policy:?}")}));
        }
        let mut h = Fnv::new();
        h.u64(spec.hash()).u64(rep.evals).u64(rep.logical_time).u64(rep.violations.len() as u64);
        for (k, v) in &rep.counters {
            h.str(k).u64(*v);
        }
        rep.digest = h.finish();
        rep
    }

    fn replay(&self, scenario: &Json) -> Result<Option<Violation>, String> {
        let scn: Scn = serde_json::from_value(scenario.clone()).map_err(|e| format!("bad C10 scenario: {e}"))?;
        let mut rep = RunReport::default();
        let mut rng = Rng::new(scn.world.hash_base);
        Ok(check_world(&scn.world, scn.policy, &mut rng, Some(&scn.plan), true, &mut rep).map(|(c, d, p)| to_violation(&scn.world, scn.policy, c, d, p)))
    }

    fn minimise(&self, v: &Violation, deadline: Instant) -> Violation {
        let Ok(scn) = serde_json::from_value::<Scn>(v.scenario.clone()) else { return v.clone() };
        let class = v.class.clone();
        // does the scenario still fail with the same class, at any write index with this fault kind?
        let fails = |s: &Scn| -> Option<Scn> {
            let mut rep = RunReport::default();
            let mut rng = Rng::new(s.world.hash_base);
            let try_plan = |plan: &Option<FaultPlan>, rng: &mut Rng, rep: &mut RunReport| {
                matches!(check_world(&s.world, s.policy, rng, Some(plan), true, rep), Some((c, _, _)) if c == class)
            };
            if try_plan(&s.plan, &mut rng, &mut rep) {
                return Some(s.clone());
            }
            if let Some(p) = &s.plan {
                if let Some(h) = p.hard {
                    for k in 1..h.at {
                        let mut p2 = p.clone();
                        p2.hard = Some(HardFault { at: k, ..h });
                        let cand = Some(p2);
                        if try_plan(&cand, &mut rng, &mut rep) {
                            let mut s2 = s.clone();
                            s2.plan = cand;
                            return Some(s2);
                        }
                    }
                }
            }
            None
        };
        let candidates = |s: &Scn| -> Vec<Scn> {
            let mut out = vec![];
            for t in gen::shrink_candidates(&s.world.templates[0]) {
                let mut c = s.clone();
                c.world.templates[0] = t;
                out.push(c);
            }
            for i in 0..s.world.partials.defs.len() {
                let mut c = s.clone();
                c.world.partials.defs.remove(i);
                out.push(c);
                if let gen::PartialBody::Valid(nodes) = &s.world.partials.defs[i].body {
                    for t in gen::shrink_candidates(nodes) {
                        let mut c = s.clone();
                        c.world.partials.defs[i].body = gen::PartialBody::Valid(t);
                        out.push(c);
                    }
                }
            }
            if let Some(p) = &s.plan {
                let mut simpler = p.clone();
                simpler.short_every = None;
                simpler.eintr_every = None;
                simpler.short_at.clear();
                simpler.eintr_at.clear();
                if simpler != *p && simpler.hard.is_some() {
                    let mut c = s.clone();
                    c.plan = Some(simpler);
                    out.push(c);
                }
            }
            out
        };
        // minimise_greedy needs still_fails: bool; we also want the adjusted plan, so loop by hand
        let mut cur = scn;
        'outer: loop {
            if Instant::now() > deadline {
                break;
            }
            for c in candidates(&cur) {
                if Instant::now() > deadline {
                    break 'outer;
                }
                if let Some(adj) = fails(&c) {
                    cur = adj;
                    continue 'outer;
                }
            }
            break;
        }
        cur.world.fill_sources();
        let mut out = v.clone();
        out.scenario = serde_json::to_value(&cur).unwrap();
        out
    }

    fn rule(&self) -> String {
        "one run = one generated (template, partial set, data, policy); the sink fails at every write index k in 1..W with every hard kind (10 io::ErrorKinds, Ok(0), short-then-error) in one-shot and sticky mode, plus seeded short-write/EINTR plans and double faults; a case is non-trivial when the fault-free run makes >= 2 write calls (a fault can land strictly inside the output); distinct = distinct (template+partials+data, policy) hashes among those".into()
    }
    fn assumptions(&self) -> Vec<String> {
        vec![
            "templates come from the harness generator (stdlib constructs, depth <= 4); inputs known to panic for input reasons are filtered by a fault-free pre-run".into(),
            "the sink is faulted only through write(); flush is observed, never faulted".into(),
            "fault index counts logical write calls (retries after short writes / EINTR do not count)".into(),
        ]
    }
    fn components(&self) -> Json {
        json!({"real": ["liquid (Parser, Template::render/render_to)", "liquid-core (parser, runtime, partial stores)", "liquid-lib (all stdlib tags, blocks, filters)"], "stub": ["output sink (SimSink)", "partial source (SimSource)", "caller data (SimGlobals)", "probe tag"]})
    }
    fn exhaustive_note(&self, _quick: bool) -> Option<String> {
        Some("exhaustive over the write index k and hard fault kinds for each sampled template; templates are sampled".into())
    }
    fn required_probes(&self) -> Vec<&'static str> {
        vec!["fault.sink.hard", "fault.sink.short", "fault.sink.eintr", "fault.sink.short_then_err", "fault.sink.zero_hard", "fault.double", "construct.tablerow", "construct.include", "construct.render", "construct.ifchanged", "construct.cycle", "templates_with_partials_reached"]
    }
}

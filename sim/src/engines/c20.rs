//! C20 — parsers and templates can be shared across threads without changing results.
//!
//! Threads are real OS threads under the simulator's deterministic scheduler (sched.rs): every
//! sink write, source read, data lookup, element boundary (hook H3) and lock admission (hook H1)
//! is a scheduling point and the seeded policy decides who runs. Every operation's result is
//! compared with its solitary result on a fresh parser.

use crate::calls::{exec, Call, Mode};
use crate::engine::{Engine, RunReport, Violation};
use crate::engines::c10::hard_kinds;
use crate::gen::{self, Gen, GenCfg, PartialBody};
use crate::prng::{run_seed, Fnv, Rng};
use crate::scenario::WorldSpec;
use crate::sched::{self, Abort, Policy};
use crate::seams::{FaultPlan, SimGlobals};
use crate::world::{self, Outcome, PolicyKind};
use serde::{Deserialize, Serialize};
use serde_json::{json, Value as Json};
use std::sync::Arc;
use std::time::Instant;

pub struct C20;

#[derive(Clone, Debug, PartialEq, Eq, Serialize, Deserialize)]
pub enum TOp {
    /// Render a template that was parsed up front and is shared by all threads.
    Render(Call),
    /// Parse source `t` on the shared parser (a clone of it if `clone`), then render with data d.
    ParseRender { t: usize, d: usize, clone: bool },
    /// Parse a broken text on the shared parser: must fail alike.
    ParseCorrupt(usize),
}

impl TOp {
    fn show(&self) -> String {
        match self {
            TOp::Render(c) => c.show(),
            TOp::ParseRender { t, d, clone } => format!("parse{}(t{t}).render(d{d})", if *clone { "[cloned parser]" } else { "" }),
            TOp::ParseCorrupt(i) => format!("parse(corrupt#{i})"),
        }
    }
}

#[derive(Clone, Debug, Serialize, Deserialize)]
pub struct Scn {
    pub world: WorldSpec,
    pub policy: PolicyKind,
    pub threads: Vec<Vec<TOp>>,
    pub sched: Policy,
    pub sched_seed: u64,
    pub class: String,
}

const STEP_BOUND: u64 = 200_000;

struct Shared {
    parser: liquid::Parser,
    templates: Vec<liquid::Template>,
    globals: Vec<SimGlobals>,
    srcs: Vec<String>,
    source: crate::seams::SimSource,
}

fn new_shared(spec: &WorldSpec, policy: PolicyKind, globals: &[SimGlobals]) -> Result<Shared, String> {
    let w = spec.build(policy)?;
    let srcs = spec.sources();
    let templates = srcs.iter().map(|s| world::parse(&w.parser, s)).collect::<Result<Vec<_>, _>>()?;
    Ok(Shared { parser: w.parser, templates, globals: globals.to_vec(), srcs, source: w.source })
}

fn run_op(sh: &Shared, op: &TOp) -> Outcome {
    match op {
        TOp::Render(c) => exec(c, &sh.templates, &sh.globals).0,
        TOp::ParseRender { t, d, clone } => {
            let parsed = if *clone {
                let p = sh.parser.clone();
                world::parse(&p, &sh.srcs[*t])
            } else {
                world::parse(&sh.parser, &sh.srcs[*t])
            };
            match parsed {
                Ok(tmpl) => {
                    let g: &dyn liquid::ObjectView = &sh.globals[*d];
                    world::render_buffered(&tmpl, g)
                }
                Err(m) => Outcome::Err { msg: format!("parse: {m}"), accepted: vec![] },
            }
        }
        TOp::ParseCorrupt(i) => match world::parse(&sh.parser, gen::CORRUPT[*i % gen::CORRUPT.len()]) {
            Ok(_) => Outcome::Ok(b"parsed".to_vec()),
            Err(m) => Outcome::Err { msg: format!("parse: {m}"), accepted: vec![] },
        },
    }
}

/// The solitary result: the operation alone, sequentially, on a fresh parser.
fn solitary(spec: &WorldSpec, policy: PolicyKind, globals: &[SimGlobals], op: &TOp) -> Result<Outcome, String> {
    let sh = new_shared(spec, policy, globals)?;
    Ok(run_op(&sh, op))
}

#[derive(Default)]
struct ExecInfo {
    trace: Vec<u8>,
    digest: u64,
    steps: u64,
    /// watchdog interventions in this execution (then it is not strictly replayable)
    lost: u64,
}

type Fail = (String, String);

/// One execution of the scenario under `policy`/`seed`. Returns the violation, if any.
fn execute(scn: &Scn, globals: &[SimGlobals], pristine: &[liquid::Object], expected: &[Vec<Outcome>], sched_policy: Policy, sched_seed: u64, rep: &mut RunReport, info: &mut ExecInfo) -> Result<Option<Fail>, String> {
    let sh = Arc::new(new_shared(&scn.world, scn.policy, globals)?);
    let mut tasks: Vec<Box<dyn FnOnce() -> Vec<Outcome> + Send + 'static>> = vec![];
    for ops in &scn.threads {
        let sh = sh.clone();
        let ops = ops.clone();
        tasks.push(Box::new(move || ops.iter().map(|op| run_op(&sh, op)).collect()));
    }
    let res = sched::run_execution(tasks, sched_policy, sched_seed, STEP_BOUND, scn.world.hash_base ^ sched_seed);
    rep.evals += 1;
    rep.logical_time += res.stats.steps;
    rep.bump("sched.switches", res.stats.switches);
    rep.bump("sched.lock_blocked", res.stats.lock_blocked);
    rep.bump("fault.sched.stall", res.stats.stalls_fired);
    rep.bump("probe.switch_inside_render", res.stats.switch_inside_render);
    if res.stats.max_waiters >= 1 {
        rep.bump("probe.lazy_first_use_contended", 1);
    }
    if res.stats.max_waiters >= 2 {
        rep.bump("probe.lazy_first_use_contended_by_2plus", 1);
    }
    for (site, n) in &res.stats.sites {
        rep.bump(&format!("site.{site}"), *n);
    }
    if res.stats.lost_events > 0 {
        rep.bump("sched.lost_task_events", res.stats.lost_events);
    }
    info.trace = res.trace.clone();
    info.digest = res.digest;
    info.steps = res.stats.steps;
    info.lost = res.stats.lost_events;
    rep.distinct.push(Fnv::new().bytes(&res.trace).finish());
    if res.stats.replay_diverged {
        // the recorded schedule named a task that could not run at that point (other code than the
        // one it was recorded on?): the scheduler fell back to its first candidate; keep judging
        rep.bump("replay_diverged", 1);
    }
    if let Some(a) = &res.abort {
        let (class, d) = match a {
            Abort::Deadlock(s) => ("T2-deadlock", format!("all unfinished threads are blocked: {s}")),
            Abort::StepBound(n) => ("T2-no-progress", format!("execution exceeded {n} scheduling steps")),
            Abort::Stalled(s) => ("T2-stalled", format!("threads blocked on primitives outside the simulator and nobody can run: {s}")),
        };
        return Ok(Some((class.into(), d)));
    }
    // T3 / T1
    for (ti, r) in res.results.iter().enumerate() {
        match r {
            None => return Ok(Some(("T2-thread-never-finished".into(), format!("thread {ti} did not finish")))),
            Some(Err(m)) => return Ok(Some(("T3-thread-panicked".into(), format!("thread {ti} panicked: {m}")))),
            Some(Ok(outs)) => {
                for (oi, got) in outs.iter().enumerate() {
                    let want = &expected[ti][oi];
                    if got.is_budget() || want.is_budget() {
                        rep.bump("discarded_budget", 1);
                        return Ok(None);
                    }
                    if let Outcome::Panic(m) = got {
                        return Ok(Some(("T3-panic".into(), format!("thread {ti} op #{oi} {} panicked: {m}", scn.threads[ti][oi].show()))));
                    }
                    if got != want {
                        return Ok(Some((
                            "T1-result-differs".into(),
                            format!("thread {ti} op #{oi} {} gave {} but alone it gives {}", scn.threads[ti][oi].show(), got.show(), want.show()),
                        )));
                    }
                }
            }
        }
    }
    // T4: later use of the same shared objects, sequentially
    for (ti, ops) in scn.threads.iter().enumerate() {
        for (oi, op) in ops.iter().enumerate() {
            let got = run_op(&sh, op);
            if got != expected[ti][oi] {
                return Ok(Some((
                    "T4-later-use-differs".into(),
                    format!("after the threads were joined, {} on the shared objects gives {} instead of {}", op.show(), got.show(), expected[ti][oi].show()),
                )));
            }
        }
    }
    // T5
    for (d, g) in sh.globals.iter().enumerate() {
        if !crate::data::deep_eq_obj(&g.inner, &pristine[d]) {
            return Ok(Some(("T5-data-modified".into(), format!("shared data object d{d} was modified"))));
        }
    }
    if scn.policy == PolicyKind::Lazy {
        rep.bump("probe.lazy_max_reads_per_name", sh.source.max_reads_per_name());
    }
    Ok(None)
}

fn gen_scn(rng: &mut Rng, quick: bool) -> Scn {
    let mut cfg = GenCfg::swarm(rng, true);
    for (i, k) in gen::KINDS.iter().enumerate() {
        if matches!(*k, "include" | "render") {
            cfg.w[i] = cfg.w[i].max(6) * 2;
        }
    }
    let corrupt = [0, 2, 3][rng.below(3)];
    let absent = [0, 2][rng.below(2)];
    let partials = gen::gen_partials(rng, &cfg, corrupt, absent, 4);
    cfg.partials = partials.names().iter().map(|n| gen::invocation_name(n)).collect();
    cfg.stored = partials.names();
    cfg.absent = partials.absent.clone();
    cfg.max_nodes = cfg.max_nodes.min(16);
    let nt = 1 + rng.below(3);
    let nd = 1 + rng.below(2);
    let mut templates = vec![];
    for _ in 0..nt {
        let mut g = Gen::new(rng, &cfg);
        let mut t = g.template();
        // make sure partials nobody has touched yet are used by several threads at once
        if !cfg.partials.is_empty() && g.rng.chance(2, 3) {
            let name = cfg.partials[g.rng.below(cfg.partials.len())].clone();
            t.insert(0, gen::Node::Include { name: gen::Expr::Str(name), args: vec![] });
        }
        templates.push(t);
    }
    // a quarter of the scenarios also have a deeply nested template (24..64 blocks) that several
    // threads parse and render at once (seeded change C20-l: a depth guard counting in shared state)
    let mut nt = nt;
    let deep_t = if rng.chance(1, 4) {
        let d = 24 + rng.below(41);
        templates.push(vec![gen::Node::Snippet(gen::deep_source(rng, d))]);
        nt += 1;
        Some(nt - 1)
    } else {
        None
    };
    let names = partials.names();
    let datas = (0..nd)
        .map(|_| {
            let h = rng.chance(1, 8);
            gen::gen_data(rng, &names, h)
        })
        .collect();
    let mut world = WorldSpec { partials, listing_rot: rng.below(4), templates, datas, hash_base: rng.next_u64(), template_src: vec![], partial_src: vec![] };
    world.fill_sources();
    let policy = match rng.below(10) {
        0 => PolicyKind::Eager,
        1 | 2 => PolicyKind::OnDemand,
        _ => PolicyKind::Lazy,
    };
    let max_threads = if quick { 6 } else { 16 };
    let nthreads = 2 + rng.below(max_threads - 1);
    let kinds = hard_kinds(rng);
    let mut threads = vec![];
    for _ in 0..nthreads {
        let nops = 1 + rng.below(if nthreads > 8 { 2 } else { 4 });
        let mut ops = vec![];
        for _ in 0..nops {
            let mut t = rng.below(nt);
            let d = rng.below(nd);
            if let Some(dt) = deep_t {
                if rng.chance(1, 2) {
                    t = dt;
                    if rng.chance(2, 3) {
                        ops.push(TOp::ParseRender { t, d, clone: rng.chance(1, 2) });
                        continue;
                    }
                }
            }
            ops.push(match rng.below(10) {
                0 | 1 => TOp::ParseRender { t, d, clone: rng.chance(1, 2) },
                2 => TOp::ParseCorrupt(rng.below(gen::CORRUPT.len())),
                3 | 4 => TOp::Render(Call { t, d, mode: Mode::Streamed }),
                5 => TOp::Render(Call { t, d, mode: Mode::Faulted(FaultPlan::hard(1 + rng.below(8), *rng.pick(&kinds), rng.chance(1, 2))) }),
                _ => TOp::Render(Call { t, d, mode: Mode::Buffered }),
            });
        }
        threads.push(ops);
    }
    Scn { world, policy, threads, sched: Policy::Random, sched_seed: 0, class: String::new() }
}

fn pick_sched(rng: &mut Rng, est_steps: u32) -> Policy {
    match rng.below(8) {
        0 | 1 => Policy::Random,
        2 | 3 => Policy::Sticky { keep: 8 + rng.below(8) as u8 },
        4 | 5 => Policy::Pct { depth: 1 + rng.below(5) as u8, horizon: est_steps.max(8) },
        _ => Policy::Skewed { max_skew: est_steps / 2 + 1, stall_per_1024: [0, 8, 40][rng.below(3)] },
    }
}

struct Prepared {
    globals: Vec<SimGlobals>,
    pristine: Vec<liquid::Object>,
    expected: Vec<Vec<Outcome>>,
}

/// Solitary results of every operation; None if the scenario must be discarded.
fn prepare(scn: &Scn, rep: &mut RunReport) -> Option<Prepared> {
    let globals = scn.world.globals();
    let pristine: Vec<liquid::Object> = globals.iter().map(|g| g.inner.clone()).collect();
    let mut expected = vec![];
    for ops in &scn.threads {
        let mut e = vec![];
        for op in ops {
            match solitary(&scn.world, scn.policy, &globals, op) {
                Ok(o) => {
                    if o.is_panic() {
                        rep.bump("discarded_baseline_panic", 1);
                        return None;
                    }
                    e.push(o);
                }
                Err(_) => {
                    rep.bump("discarded_build_or_parse", 1);
                    return None;
                }
            }
        }
        expected.push(e);
    }
    Some(Prepared { globals, pristine, expected })
}

fn check_scn(scn: &Scn, rep: &mut RunReport) -> Result<Option<Fail>, String> {
    let Some(p) = prepare(scn, rep) else { return Ok(None) };
    let mut info = ExecInfo::default();
    execute(scn, &p.globals, &p.pristine, &p.expected, scn.sched.clone(), scn.sched_seed, rep, &mut info)
}

/// Search schedules for a scenario; returns the first failing (class, detail, recorded trace).
fn search(scn: &Scn, rng: &mut Rng, n_sched: usize, rep: &mut RunReport, digest: &mut Fnv) -> Option<(Fail, Vec<u8>)> {
    let p = prepare(scn, rep)?;
    let mut est = 64u32;
    for i in 0..n_sched {
        let pol = if i == 0 { Policy::Random } else { pick_sched(rng, est) };
        let seed = rng.next_u64();
        let mut info = ExecInfo::default();
        rep.bump(
            match &pol {
                Policy::Random => "policy.random",
                Policy::Sticky { .. } => "policy.sticky",
                Policy::Pct { .. } => "policy.pct",
                Policy::Skewed { .. } => "policy.skewed",
                Policy::Replay(_) => "policy.replay",
            },
            1,
        );
        match execute(scn, &p.globals, &p.pristine, &p.expected, pol, seed, rep, &mut info) {
            Ok(Some(f)) => {
                digest.u64(info.digest);
                return Some((f, info.trace));
            }
            Ok(None) => {}
            Err(_) => {
                rep.bump("discarded_build_or_parse", 1);
                return None;
            }
        }
        est = (info.steps as u32).max(8);
        digest.u64(info.digest).bytes(&info.trace);
        if i == 0 {
            // determinism probe: the recorded trace, replayed, must give the identical event log
            let mut again = ExecInfo::default();
            let mut scratch = RunReport::default();
            let r = execute(scn, &p.globals, &p.pristine, &p.expected, Policy::Replay(info.trace.clone()), 0, &mut scratch, &mut again);
            rep.bump("replay_probe.executions", 1);
            if info.lost > 0 || again.lost > 0 {
                // the watchdog let two threads run in parallel for a while (overloaded machine):
                // such an execution is sound but not replayable, so it proves nothing either way
                rep.bump("replay_probe.skipped_lost_task", 1);
            } else if r.is_err() || again.digest != info.digest || again.trace != info.trace || scratch.counters.contains_key("replay_diverged") {
                rep.bump("replay_probe.MISMATCH", 1);
            }
        }
    }
    None
}

impl Engine for C20 {
    fn id(&self) -> &'static str {
        "C20"
    }
    fn level(&self) -> &'static str {
        "exploration"
    }
    fn runs(&self, quick: bool) -> u64 {
        if quick {
            20_000
        } else {
            300_000
        }
    }

    fn run(&self, master: u64, index: u64, quick: bool) -> RunReport {
        let mut rep = RunReport::default();
        let mut rng = Rng::new(run_seed(master, "C20", index));
        let scn = gen_scn(&mut rng, quick);
        let mut digest = Fnv::new();
        digest.u64(scn.world.hash());
        rep.bump(&format!("world.policy.{:?}", scn.policy), 1);
        rep.bump("threads", scn.threads.len() as u64);
        rep.bump("ops", scn.threads.iter().map(|t| t.len() as u64).sum());
        if scn.world.partials.defs.iter().any(|d| matches!(d.body, PartialBody::Corrupt(_))) && scn.policy == PolicyKind::Lazy {
            rep.bump("probe.world_with_corrupt_lazy_partial", 1);
        }
        let n_sched = if quick { 4 } else { 12 };
        if let Some(((class, detail), trace)) = search(&scn, &mut rng, n_sched, &mut rep, &mut digest) {
            let mut s = scn.clone();
            s.sched = Policy::Replay(trace);
            s.class = class.clone();
            rep.violations.push(Violation { signature: class.clone(), class, detail, scenario: serde_json::to_value(&s).unwrap() });
        }
        if index < 2 {
            rep.sample = Some(json!({
                "templates": scn.world.template_src, "partials": scn.world.partial_src, "policy": format!("{:?}", scn.policy),
                "threads": scn.threads.iter().map(|t| t.iter().map(|o| o.show()).collect::<Vec<_>>()).collect::<Vec<_>>(),
                "schedules_per_scenario": n_sched,
            }));
        }
        digest.u64(rep.evals).u64(rep.violations.len() as u64);
        rep.digest = digest.finish();
        rep
    }

    fn replay(&self, scenario: &Json) -> Result<Option<Violation>, String> {
        let scn: Scn = serde_json::from_value(scenario.clone()).map_err(|e| format!("bad C20 scenario: {e}"))?;
        let mut rep = RunReport::default();
        let r = check_scn(&scn, &mut rep)?;
        if rep.counters.get("replay_diverged").copied().unwrap_or(0) > 0 {
            println!("note: the recorded schedule did not fit this build exactly (recorded on different code?); the scheduler filled the gaps with its first candidate");
        }
        Ok(r.map(|(class, detail)| Violation { signature: class.clone(), class, detail, scenario: scenario.clone() }))
    }

    fn minimise(&self, v: &Violation, deadline: Instant) -> Violation {
        let Ok(scn) = serde_json::from_value::<Scn>(v.scenario.clone()) else { return v.clone() };
        let class = v.class.clone();
        // A reduced scenario no longer fits the recorded schedule: search again with fixed sub-seeds.
        let research = |s: &Scn| -> Option<Scn> {
            let mut rep = RunReport::default();
            let mut rng = Rng::new(0xC20_5EED);
            let mut d = Fnv::new();
            match search(s, &mut rng, 60, &mut rep, &mut d) {
                Some(((c, _), trace)) if c == class => {
                    let mut out = s.clone();
                    out.sched = Policy::Replay(trace);
                    Some(out)
                }
                _ => None,
            }
        };
        let candidates = |s: &Scn| -> Vec<Scn> {
            let mut out = vec![];
            if s.threads.len() > 1 {
                for i in 0..s.threads.len() {
                    let mut c = s.clone();
                    c.threads.remove(i);
                    out.push(c);
                }
            }
            for i in 0..s.threads.len() {
                if s.threads[i].len() > 1 {
                    for j in 0..s.threads[i].len() {
                        let mut c = s.clone();
                        c.threads[i].remove(j);
                        out.push(c);
                    }
                }
                for j in 0..s.threads[i].len() {
                    if let TOp::Render(call) = &s.threads[i][j] {
                        if call.mode != Mode::Buffered {
                            let mut c = s.clone();
                            c.threads[i][j] = TOp::Render(Call { mode: Mode::Buffered, ..call.clone() });
                            out.push(c);
                        }
                    }
                }
            }
            for ti in 0..s.world.templates.len() {
                for t in gen::shrink_candidates(&s.world.templates[ti]) {
                    let mut c = s.clone();
                    c.world.templates[ti] = t;
                    out.push(c);
                }
            }
            for i in 0..s.world.partials.defs.len() {
                if let PartialBody::Valid(nodes) = &s.world.partials.defs[i].body {
                    for t in gen::shrink_candidates(nodes) {
                        let mut c = s.clone();
                        c.world.partials.defs[i].body = PartialBody::Valid(t);
                        out.push(c);
                    }
                }
            }
            out
        };
        let mut cur = scn;
        'outer: loop {
            if Instant::now() > deadline {
                break;
            }
            for c in candidates(&cur) {
                if Instant::now() > deadline {
                    break 'outer;
                }
                if let Some(found) = research(&c) {
                    cur = found;
                    continue 'outer;
                }
            }
            break;
        }
        cur.world.fill_sources();
        let mut rep = RunReport::default();
        let detail = match check_scn(&cur, &mut rep) {
            Ok(Some((_, d))) => d,
            _ => return v.clone(),
        };
        Violation { class: v.class.clone(), signature: v.signature.clone(), detail, scenario: serde_json::to_value(&cur).unwrap() }
    }

    fn rule(&self) -> String {
        "one run = one scenario (parser with lazy 70% / on-demand / eager policy over 0-4 valid, corrupt or absent partials; 1-3 shared templates biased to stateful constructs and to partials nobody has touched yet; 2-6 threads (thorough: 2-16) with 1-4 operations each: render, render_to, render_to with sink fault, parse-then-render on the shared parser or a clone, parse of broken text) executed under several seeded schedules (uniform random, sticky, PCT depth 1-5, skewed starts with random stalls); one evaluation = one execution; distinct_nontrivial = distinct recorded interleavings (hash of the sequence of scheduled thread ids), every one of which contains >= 2 threads".into()
    }
    fn assumptions(&self) -> Vec<String> {
        vec![
            "threads interleave only at scheduling points the simulator owns (sink write, source read, data lookup, element boundaries of render and parse, lock admission/release); memory-model-level races inside one element are out of reach".into(),
            "with std::sync interposition on (see notes) every Mutex/RwLock/OnceLock/atomic operation of the library is announced to the simulator; with it off only the lazy cache mutex is (hook H1). A task that blocks on a primitive the simulator does not see is detected by a watchdog, marked lost and the run continues (counter sched.lost_task_events, 0 on the unchanged tree)".into(),
            "solitary results come from the real library on a fresh parser".into(),
        ]
    }
    fn components(&self) -> Json {
        json!({"real": ["liquid Parser/Template shared through Arc", "LazyStore cache and its std Mutex (admission decided by the simulator)", "all render/parse code", "real OS threads, one runnable at a time"], "stub": ["thread scheduler (sched.rs)", "lock admission (hook H1)", "output sink", "partial source", "caller data"]})
    }
    fn required_probes(&self) -> Vec<&'static str> {
        vec![
            "probe.lazy_first_use_contended", "probe.lazy_first_use_contended_by_2plus", "probe.switch_inside_render", "probe.world_with_corrupt_lazy_partial",
            "policy.random", "policy.pct", "policy.sticky", "policy.skewed", "site.template.element", "site.parse.element", "site.sink.write", "site.source.read", "site.data.get", "site.lock.acquire", "site.expr.evaluate", "site.filter.evaluate", "site.registers.get",
            "fault.sched.stall",
        ]
    }
}

pub fn describe_run(master: u64, index: u64) -> String {
    let mut rng = Rng::new(run_seed(master, "C20", index));
    let scn = gen_scn(&mut rng, true);
    format!(
        "policy {:?}\ntemplates {:#?}\npartials {:#?}\ndata {:?}\nthreads {:?}",
        scn.policy,
        scn.world.template_src,
        scn.world.partial_src,
        scn.world.datas.iter().map(|d| d.show()).collect::<Vec<_>>(),
        scn.threads.iter().map(|t| t.iter().map(|o| o.show()).collect::<Vec<_>>()).collect::<Vec<_>>()
    )
}

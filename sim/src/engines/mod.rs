pub mod c09;
pub mod c10;
pub mod c11;
pub mod c18;
pub mod c19;
pub mod c20;

use crate::engine::Engine;

pub fn all() -> Vec<Box<dyn Engine>> {
    vec![Box::new(c09::C09), Box::new(c10::C10), Box::new(c11::C11), Box::new(c18::C18), Box::new(c19::C19), Box::new(c20::C20)]
}

/// Debug aid: generate worlds and print every template that fails to parse.
pub fn dbg_parse(seed: u64, n: u64) -> i32 {
    use crate::prng::{run_seed, Rng};
    let mut fails = 0;
    let mut tally = std::collections::BTreeMap::new();
    for i in 0..n {
        let mut rng = Rng::new(run_seed(seed, "C10", i));
        let spec = c10::gen_world(&mut rng, 1, 1, std::env::var("DBG_STATEFUL").is_ok(), true);
        let w = spec.build(crate::world::PolicyKind::Eager).unwrap();
        if let Ok(t) = crate::world::parse(&w.parser, &spec.template_src[0]) {
            let g = spec.globals();
            let out = crate::world::render_buffered(&t, &g[0]);
            if let crate::world::Outcome::Panic(m) = &out {
                *tally.entry(format!("PANIC {m}")).or_insert(0u64) += 1;
                if std::env::var("DBG_SHOW_PANIC").is_ok() {
                    println!("--- PANIC {m}\n{}\n{}", spec.template_src[0], spec.datas[0].show());
                }
            }
            if let crate::world::Outcome::Err { msg, .. } = out {
                let key: String = msg.lines().filter(|l| !l.trim_start().starts_with("from:") && !l.contains("with:")).take(2).collect::<Vec<_>>().join(" | ");
                *tally.entry(key).or_insert(0u64) += 1;
            }
        }
        if let Err(e) = crate::world::parse(&w.parser, &spec.template_src[0]) {
            fails += 1;
            if fails <= 25 {
                println!("--- {}\n{}", spec.template_src[0], e.lines().take(8).collect::<Vec<_>>().join("\n"));
            }
        }
    }
    let mut t: Vec<_> = tally.into_iter().collect();
    t.sort_by_key(|(_, n)| std::cmp::Reverse(*n));
    for (k, n) in t.iter().take(40) {
        println!("{n:6} {k}");
    }
    println!("{fails} of {n} failed to parse");
    0
}

/// Debug aid: print the world of one C10 run.
pub fn dbg_world(seed: u64, index: u64) -> i32 {
    use crate::prng::{run_seed, Rng};
    let mut rng = Rng::new(run_seed(seed, "C10", index));
    let spec = c10::gen_world(&mut rng, 1, 1, false, true);
    println!("policy draw follows; template: {}", spec.template_src[0]);
    for (n, p) in &spec.partial_src {
        println!("partial {n}: {p}");
    }
    println!("data: {}", spec.datas[0].show());
    0
}

/// Debug aid: print the scenario of one C20 run.
pub fn dbg_c20(seed: u64, index: u64) -> i32 {
    println!("{}", c20::describe_run(seed, index));
    0
}

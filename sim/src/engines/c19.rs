//! C19 — eager, lazy and on-demand partial compilation are observationally equivalent.
//!
//! Three replicas (one per policy) over the same simulated source run the same history of
//! render calls in lock step; static storage faults (absent / corrupt partials) and sink faults
//! are injected; the replicas must never diverge, dead-path faults must be invisible, and every
//! call must equal its solitary result.

use crate::calls::{exec, Call, Mode};
use crate::engine::{Engine, RunReport, Violation};
use crate::engines::c09::fresh_expected;
use crate::engines::c10::hard_kinds;
use crate::gen::{self, Gen, GenCfg, PartialBody};
use crate::prng::{run_seed, Fnv, Rng};
use crate::scenario::WorldSpec;
use crate::seams::{FaultPlan, SimGlobals};
use crate::world::{self, Outcome, PolicyKind, POLICIES};
use serde::{Deserialize, Serialize};
use serde_json::{json, Value as Json};
use std::time::Instant;

pub struct C19;

#[derive(Clone, Debug, Serialize, Deserialize)]
pub struct Scn {
    pub world: WorldSpec,
    pub history: Vec<Call>,
    /// Strict worlds have no probe tags and no `.liquid` fallback partial, so that
    /// "reached a faulty partial => error" can be asserted.
    pub strict: bool,
    pub class: String,
}

fn gen_c19_world(rng: &mut Rng, strict: bool) -> WorldSpec {
    let mut cfg = GenCfg::swarm(rng, false);
    // partial-heavy workloads
    for (i, k) in gen::KINDS.iter().enumerate() {
        if matches!(*k, "include" | "render") {
            cfg.w[i] = cfg.w[i].max(6) * 2;
        }
        if *k == "probe" {
            cfg.w[i] = if strict { 0 } else { cfg.w[i].max(4) };
        }
    }
    cfg.allow_probe = !strict;
    let corrupt = [0, 2, 4][rng.below(3)];
    let absent = [0, 4, 8][rng.below(3)];
    let mut partials = gen::gen_partials(rng, &cfg, corrupt, absent, 4);
    if strict {
        for d in partials.defs.iter_mut() {
            if d.name == "x.liquid" {
                d.name = "px".into();
            }
        }
    }
    cfg.partials = partials.names().iter().map(|n| gen::invocation_name(n)).collect();
    cfg.stored = partials.names();
    cfg.absent = partials.absent.clone();
    let nt = 1 + rng.below(2);
    let nd = 1 + rng.below(2);
    let mut templates = vec![];
    for _ in 0..nt {
        let mut g = Gen::new(rng, &cfg);
        templates.push(g.template());
    }
    let names = partials.names();
    let datas = (0..nd)
        .map(|_| {
            let h = rng.chance(1, 6);
            gen::gen_data(rng, &names, h)
        })
        .collect();
    let mut w = WorldSpec { partials, listing_rot: rng.below(4), templates, datas, hash_base: rng.next_u64(), template_src: vec![], partial_src: vec![] };
    w.fill_sources();
    w
}

/// The same world with every storage fault repaired (corrupt bodies replaced, absent names added).
fn healed(spec: &WorldSpec) -> WorldSpec {
    let mut h = spec.clone();
    for d in h.partials.defs.iter_mut() {
        if matches!(d.body, PartialBody::Corrupt(_)) {
            d.body = PartialBody::Valid(vec![gen::Node::Text("healed".into())]);
        }
    }
    for a in h.partials.absent.clone() {
        h.partials.defs.push(gen::PartialDef { name: a, body: PartialBody::Valid(vec![gen::Node::Text("healed".into())]) });
    }
    h.partials.absent.clear();
    h
}

struct Replica {
    policy: PolicyKind,
    world: world::World,
    templates: Vec<liquid::Template>,
}

type Fail = (usize, String, String);

fn check_scn(scn: &Scn, rep: &mut RunReport) -> Result<Option<Fail>, String> {
    let spec = &scn.world;
    let srcs = spec.sources();
    let globals: Vec<SimGlobals> = spec.globals();
    // I1: build never fails, whatever the source holds
    let mut replicas = vec![];
    for p in POLICIES {
        let w = match crate::sched::catch(|| spec.build(p)) {
            Ok(Ok(w)) => w,
            Ok(Err(e)) => return Ok(Some((0, "I1-build-failed".into(), format!("{p:?}: ParserBuilder::build returned an error for a source with broken/absent partials: {}", e.lines().next().unwrap_or(""))))),
            Err(m) => return Ok(Some((0, "I5-panic".into(), format!("{p:?}: build panicked: {m}")))),
        };
        let reads_at_build = w.source.total_reads();
        rep.bump(&format!("reads_at_build.{p:?}"), reads_at_build);
        // every other world parses its templates on a clone of the parser (shares the store)
        let parse_on = if spec.hash_base % 2 == 0 { w.parser.clone() } else { w.parser.clone().clone() };
        let templates = srcs.iter().map(|s| world::parse(&parse_on, s)).collect::<Result<Vec<_>, _>>()?;
        replicas.push(Replica { policy: p, world: w, templates });
    }
    let faulty_names: Vec<String> = spec
        .partials
        .defs
        .iter()
        .filter(|d| matches!(d.body, PartialBody::Corrupt(_)))
        .map(|d| d.name.clone())
        .chain(spec.partials.absent.iter().cloned())
        .chain(spec.partials.absent.iter().map(|a| format!("{a}.liquid")))
        .collect();
    let has_faults = !faulty_names.is_empty();
    let healed_spec = if has_faults { Some(healed(spec)) } else { None };
    for (i, call) in scn.history.iter().enumerate() {
        let mut outs = vec![];
        let mut reached = false;
        for r in replicas.iter() {
            let before: u64 = faulty_names.iter().map(|n| r.world.source.reads_of(n) + r.world.source.misses_of(n)).sum();
            let reads_before = r.world.source.total_reads();
            let (o, st) = exec(call, &r.templates, &globals);
            rep.evals += 1;
            rep.logical_time += st.sink_calls + (r.world.source.total_reads() - reads_before);
            if st.hard_fired {
                rep.bump("fault.sink.hard", 1);
            }
            let after: u64 = faulty_names.iter().map(|n| r.world.source.reads_of(n) + r.world.source.misses_of(n)).sum();
            if r.policy == PolicyKind::OnDemand && after > before {
                reached = true;
            }
            rep.bump(&format!("reads_at_render.{:?}", r.policy), r.world.source.total_reads() - reads_before);
            if o.is_budget() {
                rep.bump("discarded_budget", 1);
                return Ok(None);
            }
            if let Outcome::Panic(m) = &o {
                return Ok(Some((i, "I5-panic".into(), format!("call #{i} {} panicked under {:?}: {m}", call.show(), r.policy))));
            }
            outs.push(o);
        }
        // I2: replicas agree (same bytes; errors alike — messages are not compared)
        let kinds: Vec<&str> = outs.iter().map(|o| o.kind()).collect();
        let same_kind = kinds.iter().all(|k| *k == kinds[0]);
        let same_bytes = outs.iter().all(|o| o.bytes() == outs[0].bytes());
        if !same_kind || !same_bytes {
            return Ok(Some((
                i,
                "I2-replicas-diverge".into(),
                format!("call #{i} {}: eager {} | lazy {} | on-demand {}", call.show(), outs[0].show(), outs[1].show(), outs[2].show()),
            )));
        }
        if outs.iter().any(|o| o.is_err()) {
            // "fail alike" is read as: the same error, as far as it can be observed (its Display
            // text, which names the partial, the position and the available partials). All three
            // stores produce it from the same source and language, so any difference means one policy
            // knows something different about the partial set. Reported under its own class.
            let msgs: std::collections::BTreeSet<String> = outs.iter().filter_map(|o| if let Outcome::Err { msg, .. } = o { Some(msg.clone()) } else { None }).collect();
            rep.bump(if msgs.len() == 1 { "err_messages_identical" } else { "err_messages_differ" }, 1);
            if msgs.len() != 1 {
                return Ok(Some((
                    i,
                    "I2m-error-text-differs".into(),
                    format!("call #{i} {} fails under all policies but not alike: eager {} | lazy {} | on-demand {}", call.show(), outs[0].show(), outs[1].show(), outs[2].show()),
                )));
            }
        }
        // I3: storage faults are visible exactly on the paths that use them
        if has_faults {
            if reached {
                rep.bump("fault.partial.reached", 1);
                // "reached => error" is C08's clause, not C19's ("an error ONLY in renders that reach
                // it"): counted, not reported.
                if scn.strict && outs[0].is_ok() {
                    rep.bump("probe.reached_faulty_partial_but_ok", 1);
                }
            } else {
                rep.bump("fault.partial.dead_path", 1);
                let hs = healed_spec.as_ref().unwrap();
                for (r, o) in replicas.iter().zip(outs.iter()) {
                    let want = fresh_expected(hs, r.policy, &srcs, &globals, call)?;
                    rep.evals += 1;
                    if o.kind() != want.kind() || o.bytes() != want.bytes() {
                        return Ok(Some((
                            i,
                            "I3-dead-path-visible".into(),
                            format!(
                                "call #{i} {} under {:?} does not use the absent/corrupt partial(s) {:?} yet gives {} instead of {} (result with all partials valid)",
                                call.show(), r.policy, faulty_names, o.show(), want.show()
                            ),
                        )));
                    }
                }
            }
        }
        // I4: repeated use equals first use — each replica equals its solitary result
        for (r, o) in replicas.iter().zip(outs.iter()) {
            let want = fresh_expected(spec, r.policy, &srcs, &globals, call)?;
            rep.evals += 1;
            if want.is_panic() {
                continue;
            }
            if *o != want {
                return Ok(Some((
                    i,
                    "I4-repeat-differs".into(),
                    format!("call #{i} {} under {:?} gave {} but its first use on a fresh parser gives {}", call.show(), r.policy, o.show(), want.show()),
                )));
            }
        }
    }
    // reach probes for the cache paths
    let lazy = &replicas[1];
    rep.bump("lazy.max_reads_per_name", lazy.world.source.max_reads_per_name());
    if scn.history.len() > 1 && lazy.world.source.total_reads() > 0 {
        rep.bump("lazy.cache_hit_path_possible", 1);
    }
    Ok(None)
}

fn gen_history(spec: &WorldSpec, rng: &mut Rng, max_len: usize) -> Vec<Call> {
    let k = 1 + rng.below(max_len);
    let kinds = hard_kinds(rng);
    let mut h = vec![];
    for _ in 0..k {
        let t = rng.below(spec.templates.len());
        let d = rng.below(spec.datas.len());
        let mode = match rng.below(5) {
            0 | 1 => Mode::Buffered,
            2 => Mode::Streamed,
            _ => Mode::Faulted(FaultPlan::hard(1 + rng.below(12), *rng.pick(&kinds), rng.chance(1, 2))),
        };
        h.push(Call { t, d, mode });
    }
    h
}

impl Engine for C19 {
    fn id(&self) -> &'static str {
        "C19"
    }
    fn level(&self) -> &'static str {
        "exploration"
    }
    fn runs(&self, quick: bool) -> u64 {
        if quick {
            100_000
        } else {
            3_000_000
        }
    }

    fn run(&self, master: u64, index: u64, quick: bool) -> RunReport {
        let mut rep = RunReport::default();
        let mut rng = Rng::new(run_seed(master, "C19", index));
        let strict = rng.chance(1, 2);
        let spec = gen_c19_world(&mut rng, strict);
        let history = gen_history(&spec, &mut rng, if quick { 3 } else { 6 });
        let scn = Scn { world: spec, history, strict, class: String::new() };
        let mut digest = Fnv::new();
        digest.u64(scn.world.hash());
        // discard scenarios whose solitary baseline panics (input-triggered, not C19's subject)
        let srcs = scn.world.sources();
        let globals = scn.world.globals();
        let mut baseline_panic = false;
        for c in &scn.history {
            if let Ok(o) = fresh_expected(&scn.world, PolicyKind::OnDemand, &srcs, &globals, c) {
                o.digest(&mut digest);
                if o.is_panic() {
                    baseline_panic = true;
                }
            }
        }
        if baseline_panic {
            rep.bump("discarded_baseline_panic", 1);
        } else {
            match check_scn(&scn, &mut rep) {
                Ok(Some((at, class, detail))) => {
                    let mut s = scn.clone();
                    s.history.truncate(at + 1);
                    s.class = class.clone();
                    rep.violations.push(Violation { signature: class.clone(), class, detail, scenario: serde_json::to_value(&s).unwrap() });
                }
                Ok(None) => {}
                Err(_) => rep.bump("discarded_build_or_parse", 1),
            }
            let np = scn.world.partials.defs.len();
            if np > 0 {
                rep.distinct.push(scn.world.hash());
            }
            rep.bump(if strict { "worlds.strict" } else { "worlds.lenient" }, 1);
            rep.bump("worlds.with_corrupt", scn.world.partials.defs.iter().any(|d| d.is_corrupt()) as u64);
            rep.bump("worlds.with_absent", (!scn.world.partials.absent.is_empty()) as u64);
            rep.bump("worlds.with_fallback_name", scn.world.partials.defs.iter().any(|d| d.name.ends_with(".liquid")) as u64);
        }
        if index < 3 {
            rep.sample = Some(json!({
                "templates": scn.world.template_src, "partials": scn.world.partial_src, "absent": scn.world.partials.absent,
                "data": scn.world.datas.iter().map(|d| d.show()).collect::<Vec<_>>(),
                "history": scn.history.iter().map(|c| c.show()).collect::<Vec<_>>(), "strict": strict,
            }));
        }
        digest.u64(rep.evals).u64(rep.violations.len() as u64);
        rep.digest = digest.finish();
        rep
    }

    fn replay(&self, scenario: &Json) -> Result<Option<Violation>, String> {
        let scn: Scn = serde_json::from_value(scenario.clone()).map_err(|e| format!("bad C19 scenario: {e}"))?;
        let mut rep = RunReport::default();
        Ok(check_scn(&scn, &mut rep)?.map(|(_, class, detail)| Violation { signature: class.clone(), class, detail, scenario: scenario.clone() }))
    }

    fn minimise(&self, v: &Violation, deadline: Instant) -> Violation {
        let Ok(scn) = serde_json::from_value::<Scn>(v.scenario.clone()) else { return v.clone() };
        let class = v.class.clone();
        let fails = |s: &Scn| {
            let mut rep = RunReport::default();
            matches!(check_scn(s, &mut rep), Ok(Some((_, c, _))) if c == class)
        };
        let candidates = |s: &Scn| -> Vec<Scn> {
            let mut out = vec![];
            for i in 0..s.history.len() {
                if s.history.len() > 1 {
                    let mut c = s.clone();
                    c.history.remove(i);
                    out.push(c);
                }
                if s.history[i].mode != Mode::Buffered {
                    let mut c = s.clone();
                    c.history[i].mode = Mode::Buffered;
                    out.push(c);
                }
            }
            for ti in 0..s.world.templates.len() {
                for t in gen::shrink_candidates(&s.world.templates[ti]) {
                    let mut c = s.clone();
                    c.world.templates[ti] = t;
                    out.push(c);
                }
            }
            for i in 0..s.world.partials.defs.len() {
                let mut c = s.clone();
                c.world.partials.defs.remove(i);
                out.push(c);
                if let PartialBody::Valid(nodes) = &s.world.partials.defs[i].body {
                    for t in gen::shrink_candidates(nodes) {
                        let mut c = s.clone();
                        c.world.partials.defs[i].body = PartialBody::Valid(t);
                        out.push(c);
                    }
                }
            }
            out
        };
        let mut cur = crate::engine::minimise_greedy(scn, candidates, fails, deadline);
        cur.world.fill_sources();
        let mut rep = RunReport::default();
        let detail = match check_scn(&cur, &mut rep) {
            Ok(Some((_, _, d))) => d,
            _ => v.detail.clone(),
        };
        Violation { class: v.class.clone(), signature: v.signature.clone(), detail, scenario: serde_json::to_value(&cur).unwrap() }
    }

    fn rule(&self) -> String {
        "one run = one world (1-2 templates, 1-2 data objects, 0-4 partials each valid/corrupt, optionally an absent name, literal and dynamic names, a `.liquid` fallback name in lenient worlds) built under all three policies over one simulated source, and one history of 1-3 (thorough 1-6) calls {render, render_to, render_to with sink fault} applied to the three replicas in lock step; non-trivial = the source holds at least one partial; distinct = distinct world hashes among those".into()
    }
    fn assumptions(&self) -> Vec<String> {
        vec![
            "source listing is truthful (names() lists exactly what try_get can return), as the property demands".into(),
            "'fail alike' is read as 'the same error as observable through its Display text' (class I2m, reported separately from Ok/Err or output divergence I2); the three stores build that text from the same source and language".into(),
            "whether a call reached a faulty partial is observed through the on-demand replica's source read counters".into(),
        ]
    }
    fn components(&self) -> Json {
        json!({"real": ["EagerCompiler/EagerStore", "LazyCompiler/LazyStore (cache, get and try_get paths)", "OnDemandCompiler/OnDemandStore", "ParserBuilder::build", "include/render tags", "whole render pipeline"], "stub": ["partial source (SimSource with read counters)", "output sink", "caller data", "probe tag (drives try_get)"]})
    }
    fn required_probes(&self) -> Vec<&'static str> {
        vec![
            "fault.partial.reached", "fault.partial.dead_path", "fault.sink.hard", "worlds.with_corrupt", "worlds.with_absent", "worlds.with_fallback_name",
            "reads_at_build.Eager", "reads_at_render.Lazy", "reads_at_render.OnDemand", "lazy.cache_hit_path_possible",
        ]
    }
}

#!/usr/bin/env bash
# Apply a seeded change to /repo, run checks, undo. usage: run_against.sh <patch.diff> <prop> [<prop>...]
set -u
P=$(readlink -f "$1"); shift
git -C /repo status --short | grep -q . && { echo "/repo not clean"; exit 2; }
git -C /repo apply "$P" || exit 2
# the evidence files must keep describing the unchanged tree: save and restore them
EVSAVE=$(mktemp -d); cp -a /verif/evidence/. "$EVSAVE"/ 2>/dev/null
trap 'git -C /repo checkout -q -- .; cp -a "$EVSAVE"/. /verif/evidence/ 2>/dev/null; rm -rf "$EVSAVE"' EXIT
for prop in "$@"; do
  out=$(cd /verif && ./check.sh "$prop" quick 2>&1); code=$?
  echo "--- $prop exit=$code"
  echo "$out" | grep -E "^violation|^VIOLATION|HARNESS|OK:|FAILED:|REACH" | cut -c1-700
done

#!/usr/bin/env bash
# Run the quick check of its property against every seeded change; refresh the stored replay file.
cd /verif || exit 2
rm -f replays/*.json
for d in seeded/*/; do
  w=$(basename "$d"); id=${w%-*}
  out=$(tools/run_against.sh "$d/patch.diff" "$id" 2>&1)
  line=$(echo "$out" | grep -E "^violation" | head -1 | cut -c1-160)
  code=$(echo "$out" | grep -oE "exit=[0-9]+" | head -1)
  warn=$(echo "$out" | grep -cE "WARNING|NOTE|HARNESS")
  echo "$w: $code ${line:-NO VIOLATION} ${warn:+(notes:$warn)}"
  echo "$code $(echo "$out" | grep -E "^violation" | head -1 | sed -E 's/ detail:.*//')" > "$d/latest.txt"
  f=$(ls -t replays/ 2>/dev/null | grep "^$id-" | head -1); [ -n "$f" ] && mv "replays/$f" "$d/replay.json"
  rm -f replays/*.json
done
./check.sh build

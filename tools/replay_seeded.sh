#!/usr/bin/env bash
# For every seeded change: its stored replay file must reproduce the violation with the change
# applied (exit 1, fresh process) and must NOT violate on the unchanged tree (exit 0).
set -u
cd /verif || exit 2
git -C /repo status --short | grep -q . && { echo "/repo not clean"; exit 2; }
bad=0
for d in seeded/*/; do
  id=$(basename "$d"); [ -f "$d/replay.json" ] || { echo "$id: no replay.json"; continue; }
  git -C /repo apply "$(readlink -f "$d/patch.diff")" || { echo "$id: patch does not apply"; bad=1; continue; }
  ./check.sh replay "$d/replay.json" > /tmp/rs.$$.log 2>&1; with=$?
  git -C /repo checkout -q -- .
  ./check.sh replay "$d/replay.json" > /tmp/rs2.$$.log 2>&1; without=$?
  echo "$id: replay with change exit=$with (want 1), on unchanged tree exit=$without (want 0)"
  [ "$with" = 1 ] && [ "$without" = 0 ] || { bad=1; tail -n 2 /tmp/rs.$$.log; tail -n 2 /tmp/rs2.$$.log; }
done
rm -f /tmp/rs.$$.log /tmp/rs2.$$.log
exit $bad

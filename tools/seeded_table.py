#!/usr/bin/env python3
"""Regenerate /verif/seeded/RESULTS.md from the meta.json files."""
import json, glob, os
rows = []
for d in sorted(glob.glob('/verif/seeded/*/meta.json')):
    m = json.load(open(d))
    rows.append(m)
out = ["# Seeded property-breaking changes and which check catches them", "",
       "Every change was written by an independent sub-agent that saw only the property record (and, from round b on, a one-line note on what earlier changes for that property did, to get different mechanisms) and worked in its own scratch worktree. I confirmed each one with `tools/confirm_mutant.sh` (full suite passes with the change; the demonstration fails with it and passes without it) and ran the checks with `tools/run_against.sh` (apply to /repo, `./check.sh <prop> quick`, undo).", "",
       "The run indices quoted in the result column are those of the build that first met the change; the `latest run` note is rewritten by `tools/run_all_seeded.sh` (generator and engine changes move the index).", "",
       "| id | property | what the change does | needs | result |", "|---|---|---|---|---|"]
for m in rows:
    latest = ""
    lp = f"/verif/seeded/{m['id']}/latest.txt"
    if os.path.exists(lp):
        latest = " — latest run of the quick check: `" + open(lp).read().strip() + "`"
    out.append(f"| {m['id']} | {m['property']} | {m['what']} | {m['needs_to_manifest']} | {m['result']}{latest} |")
n_det = sum("DETECTED" in m["result"] for m in rows)
missed_first = [m["id"] for m in rows if m["result"].startswith("MISSED")]
out += ["", f"{n_det} of {len(rows)} are detected by the quick check of their property as it stands now; {len(missed_first)} of them ({', '.join(missed_first)}) were missed by the check as first built and led to the strengthening described in their row and in DESIGN.md section 6.", ""]
open('/verif/seeded/RESULTS.md', 'w').write("\n".join(out))
print("\n".join(out[-3:]))

#!/usr/bin/env bash
# Reverse direction of the sensitivity proof: every quick check under many VERIF_SEED values on the
# unchanged tree must raise no alarm.  usage: tools/seed_sweep.sh [nseeds] [out.md]
set -u
cd "$(dirname "$0")/.." || exit 2
N=${1:-50}; OUT=${2:-sensitivity/SEED_SWEEP.md}
./check.sh build || exit 2
export LIQUID_SIM_VERIF_DIR="$(pwd)"
mkdir -p "$(dirname "$OUT")"
{
echo "# Seed sweep on the unchanged tree"; echo
echo "repo HEAD $(git -C /repo log --format=%h -1), $(date '+%Y-%m-%d %H:%M:%S'); every line is one quick check under one VERIF_SEED"; echo
echo "| check | seeds | exit 0 | exit 1 (alarm) | exit 2 (harness) |"; echo "|---|---|---|---|---|"
} > "$OUT"
bad=0
for id in C09 C10 C11 C18 C19 C20; do
  ok=0; alarm=0; herr=0
  for s in $(seq 101 $((100+N))); do
    VERIF_SEED=$s ./sim/target/release/liquid-sim check $id --tier quick --no-evidence > /tmp/sweep.$$.log 2>&1; c=$?
    case $c in 0) ok=$((ok+1));; 1) alarm=$((alarm+1)); echo "ALARM $id seed=$s"; grep -E "^violation|VIOLATION" /tmp/sweep.$$.log;; *) herr=$((herr+1)); echo "HARNESS $id seed=$s"; tail -3 /tmp/sweep.$$.log;; esac
  done
  echo "| $id | $N | $ok | $alarm | $herr |" | tee -a "$OUT"
  bad=$((bad+alarm+herr))
done
rm -f /tmp/sweep.$$.log
exit $((bad>0))

#!/usr/bin/env python3
"""Instrumenting copy of /repo's working tree for the simulator build.

Copies the working tree (tracked + untracked-not-ignored files) to <dst>, rewrites every
`std::sync` / `core::sync` path in the library sources to the simulator-aware drop-in
(`…::verif::sync`, injected from sim/shim/verif_sync.rs), and syncs by checksum so that unchanged
files keep their mtime (incremental builds stay incremental).

usage: instrument.py [--no-rewrite] [--src /repo] [--dst <this checkout>/instrumented]
"""
import os, re, shutil, subprocess, sys, tempfile

def main():
    args = sys.argv[1:]
    rewrite = "--no-rewrite" not in args
    def opt(name, default):
        return args[args.index(name) + 1] if name in args else default
    src = opt("--src", "/repo")
    here = os.path.dirname(os.path.abspath(__file__))
    dst = opt("--dst", os.path.normpath(os.path.join(here, "..", "instrumented")))
    shim = os.path.join(here, "..", "sim", "shim", "verif_sync.rs")
    files = subprocess.check_output(["git", "-C", src, "ls-files", "-co", "--exclude-standard"], text=True).split("\n")
    stage = tempfile.mkdtemp(prefix="liquid-instr-")
    try:
        n_rewritten = 0
        pat = re.compile(r"(?<![A-Za-z0-9_:])(?:::)?(?:std|core)::sync\b")
        h1 = re.compile(r'[ \t]*#\[cfg\(feature = "verif-hooks"\)\]\n[ \t]*crate::verif::before_lock\([^\n]*\n')
        for f in files:
            if not f:
                continue
            s = os.path.join(src, f)
            if not os.path.isfile(s):
                continue  # deleted in the working tree
            d = os.path.join(stage, f)
            os.makedirs(os.path.dirname(d), exist_ok=True)
            lib_src = f.endswith(".rs") and (f.startswith("src/") or f.startswith("crates/core/src/") or f.startswith("crates/lib/src/"))
            if rewrite and lib_src and not f.endswith("crates/core/src/verif.rs"):
                txt = open(s, encoding="utf-8").read()
                target = "crate::verif::sync" if f.startswith("crates/core/src/") else "liquid_core::verif::sync"
                new, n = pat.subn(target, txt)
                # hook H1 (explicit notification before a std Mutex is taken) is subsumed by the
                # drop-in Mutex, which announces every lock itself
                new = h1.sub("", new)
                n_rewritten += n
                open(d, "w", encoding="utf-8").write(new)
            else:
                shutil.copyfile(s, d)
        # inject the drop-in module
        vr = os.path.join(stage, "crates/core/src/verif.rs")
        if os.path.isfile(vr):
            shutil.copyfile(shim, os.path.join(stage, "crates/core/src/verif_sync.rs"))
            with open(vr, "a", encoding="utf-8") as fh:
                fh.write('\n#[path = "verif_sync.rs"]\npub mod sync;\n')
        os.makedirs(dst, exist_ok=True)
        subprocess.check_call(["rsync", "-rlD", "--checksum", "--delete", "--exclude", "target", stage + "/", dst + "/"])
        print(f"instrument: {len([f for f in files if f])} files, {n_rewritten} std::sync paths rewritten ({'on' if rewrite else 'off'})")
    finally:
        shutil.rmtree(stage, ignore_errors=True)

main()

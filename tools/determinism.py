#!/usr/bin/env python3
"""Determinism proof for the simulator.

For each engine: the per-run digests (hash of scenario, ordered seam-event log incl. scheduler
decisions, and results) of run indices 0..N are computed in separate processes, twice each, at
1, 5 and 16 workers and for several VERIF_SEED values, and compared. Any difference is a harness
bug. Usage: tools/determinism.py [N] [engine ...]      (writes /verif/sensitivity/DETERMINISM.md)
"""
import subprocess, sys, time, os
SIM = "/verif/sim/target/release/liquid-sim"
ENGINES = ["C09", "C10", "C11", "C18", "C19", "C20"]
N = {"C09": 150, "C10": 4000, "C11": 300, "C18": 3000, "C19": 4000, "C20": 2000}

def digests(engine, seed, n, workers):
    out = subprocess.run([SIM, "digest", engine, "--seed", str(seed), "--from", "0", "--to", str(n), "--workers", str(workers)],
                         capture_output=True, text=True, check=True).stdout
    return out

def main():
    args = sys.argv[1:]
    scale = 1.0
    if args and args[0].replace('.', '', 1).isdigit():
        scale = float(args[0]); args = args[1:]
    engines = args or ENGINES
    subprocess.run(["/verif/check.sh", "build"], check=True)
    lines = ["# Determinism proof", "", f"run at {time.strftime('%Y-%m-%d %H:%M:%S')}, binary {SIM}", "",
             "| engine | VERIF_SEED | runs | processes compared (workers) | result |", "|---|---|---|---|---|"]
    bad = 0
    for e in engines:
        n = max(8, int(N[e] * scale))
        for seed in (1, 2, 7919):
            ref = None; ok = True; cfgs = []
            for workers in (1, 5, 16, 16):
                d = digests(e, seed, n, workers); cfgs.append(str(workers))
                if ref is None: ref = d
                elif d != ref:
                    ok = False
                    a, b = ref.splitlines(), d.splitlines()
                    diff = [i for i, (x, y) in enumerate(zip(a, b)) if x != y][:5]
                    print(f"MISMATCH {e} seed={seed} workers={workers} first differing lines {diff}")
            lines.append(f"| {e} | {seed} | {n} | 4 ({', '.join(cfgs)}) | {'identical' if ok else 'DIFFERENT'} |")
            print(lines[-1]); bad += (not ok)
    os.makedirs("/verif/sensitivity", exist_ok=True)
    open("/verif/sensitivity/DETERMINISM.md", "w").write("\n".join(lines) + "\n")
    sys.exit(2 if bad else 0)

main()

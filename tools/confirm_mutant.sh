#!/usr/bin/env bash
# Confirm a seeded change independently: tests pass with it, demo fails with it and passes without.
#   confirm_mutant.sh <worktree> <outdir>      writes <outdir>/confirm.log ; exit 0 if all confirmed
set -u
WT=$1; OUT=$2; LOG=$OUT/confirm.log
export CARGO_NET_OFFLINE=true
cd "$WT" || exit 2
git checkout -q -- . ; rm -f tests/demo_test.rs
{
echo "== apply patch"; git apply "$OUT/patch.diff" || { echo "PATCH DOES NOT APPLY"; exit 1; }
echo "== full suite with change"
cargo test --workspace --no-fail-fast --offline 2>&1 | grep -E "^test result|FAILED|^error" | sort | uniq -c
suite_failed=$(cargo test --workspace --no-fail-fast --offline 2>&1 | grep -E "^test result" | awk '{f+=$6} END {print f+0}')
echo "suite failed tests: $suite_failed"
cp "$OUT/demo_test.rs" tests/demo_test.rs
echo "== demo with change"
timeout 900 cargo test --offline --test demo_test 2>&1 | grep -E "^test |^test result|panicked" | head -30
with=$(timeout 900 cargo test --offline --test demo_test 2>&1 | grep -E "^test result" | awk '{f+=$6} END {print f+0}')
git checkout -q -- .
echo "== demo without change"
timeout 900 cargo test --offline --test demo_test 2>&1 | grep -E "^test result" 
without=$(timeout 900 cargo test --offline --test demo_test 2>&1 | grep -E "^test result" | awk '{f+=$6} END {print f+0}')
rm -f tests/demo_test.rs
echo "SUMMARY suite_failed=$suite_failed demo_failed_with=$with demo_failed_without=$without"
} > "$LOG" 2>&1
tail -1 "$LOG"

#!/usr/bin/env bash
# Build the simulator against /repo's current working tree (hooks on) and run one check.
#   ./check.sh <Cxx> quick|thorough        exit 0 ok / 1 VIOLATION / 2 harness error
#   ./check.sh replay <file>
set -u
cd "$(dirname "$0")/sim" || exit 2
export CARGO_NET_OFFLINE=true
build() {
  if ! cargo build --release --offline >/tmp/liquid-sim-build.$$.log 2>&1; then
    cat /tmp/liquid-sim-build.$$.log >&2
    rm -f /tmp/liquid-sim-build.$$.log
    echo "HARNESS-ERROR: simulator (or /repo with verif-hooks) failed to build" >&2
    exit 2
  fi
  rm -f /tmp/liquid-sim-build.$$.log
}
if [ "${1:-}" = "build" ]; then build; exit 0; fi
if [ "${1:-}" = "replay" ]; then build; exec ./target/release/liquid-sim replay "$2"; fi
id="${1:?property id}"; tier="${2:-${VERIF_TIER:-quick}}"
build
exec ./target/release/liquid-sim check "$id" --tier "$tier"

#!/usr/bin/env bash
# Build the simulator against /repo's current working tree (hooks on) and run one check.
#   ./check.sh <Cxx> quick|thorough        exit 0 ok / 1 VIOLATION / 2 harness error
#   ./check.sh replay <file>
set -u
# resolve a replay file given relative to the caller's directory before changing directory
if [ "${1:-}" = "replay" ] && [ -n "${2:-}" ]; then REPLAY_FILE=$(readlink -f "$2"); fi
cd "$(dirname "$0")/sim" || exit 2
export LIQUID_SIM_VERIF_DIR="$(cd .. && pwd)"
export CARGO_NET_OFFLINE=true
build() {
  # 1. instrumenting copy of /repo's working tree (std::sync -> simulator-aware drop-in), 2. build.
  #    If the instrumented sources do not compile (a change uses a std::sync API the drop-in lacks),
  #    fall back to the plain copy: the checks still run, only with coarser scheduling points.
  python3 ../tools/instrument.py >/tmp/liquid-sim-build.$$.log 2>&1 || { cat /tmp/liquid-sim-build.$$.log >&2; echo "HARNESS-ERROR: instrumenting copy failed" >&2; exit 2; }
  if ! cargo build --release --offline >>/tmp/liquid-sim-build.$$.log 2>&1; then
    python3 ../tools/instrument.py --no-rewrite >/dev/null 2>&1
    if ! cargo build --release --offline >>/tmp/liquid-sim-build.$$.log 2>&1; then
      cat /tmp/liquid-sim-build.$$.log >&2
      rm -f /tmp/liquid-sim-build.$$.log
      echo "HARNESS-ERROR: simulator (or /repo with verif-hooks) failed to build" >&2
      exit 2
    fi
    echo "NOTE: std::sync interposition disabled for this build (instrumented sources did not compile)"
    echo off > target/.interpose
  else
    echo on > target/.interpose
  fi
  rm -f /tmp/liquid-sim-build.$$.log
}
if [ "${1:-}" = "build" ]; then build; exit 0; fi
if [ "${1:-}" = "replay" ]; then build; exec ./target/release/liquid-sim replay "$REPLAY_FILE"; fi
id="${1:?property id}"; tier="${2:-${VERIF_TIER:-quick}}"
build
export LIQUID_SIM_INTERPOSE="$(cat target/.interpose 2>/dev/null || echo unknown)"
exec ./target/release/liquid-sim check "$id" --tier "$tier"
